--------------------------------- MODULE Rip ---------------------------------
(***************************************************************************)
(* The RIPscrip command lexer of icy_engine, character by character (C20).   *)
(*                                                                           *)
(* Modelled code: src/parsers/rip/mod.rs  (Parser::print_char,               *)
(* parse_parameter, start_command, push_command, record_rip_command,         *)
(* parse_base_36, to_base_36) and EVERY Command::parse / to_rip_string of     *)
(* src/parsers/rip/commands.rs (53 commands: 36 of level 0, 16 of level 1,   *)
(* 1 of level 9).  Field widths follow doc/ripscript/154/ripscript.txt; the  *)
(* places where the code deviates from that text are marked (!).            *)
(*                                                                           *)
(* The model is deterministic: RipStep(st, c) = next state + the RIP text    *)
(* (Command::to_rip_string) of the command executed by character c (at most  *)
(* one) + the outcome class of print_char.  Characters are code points.      *)
(*                                                                           *)
(* What is NOT modelled: what a command draws (Command::run; only its two    *)
(* effects on the lexer - Bgi::suspend_text toggled by an all-zero           *)
(* RIP_TEXT_WINDOW, reset by RIP_RESET_WINDOWS), and the fallback ANSI       *)
(* parser beyond the question the lexer asks it ("are you in state Default / *)
(* in a CSI sequence, and what is its first parameter?"): ESC, CSI with      *)
(* numeric parameters and a final byte are exact (cf. spec/term/Term.tla),   *)
(* DCS / OSC / APS / CSI sub-states are one opaque state "O".               *)
(***************************************************************************)
EXTENDS Integers, Sequences
LOCAL INSTANCE SequencesExt          \* FoldLeft

MaxI == 2147483647

\* ------------------------------------------------------------------ base 36
\* char::to_digit(36): (!) lower-case letters are digits too; they are re-serialised in upper case
Dig(c) == IF c >= 48 /\ c <= 57 THEN c - 48 ELSE IF c >= 65 /\ c <= 90 THEN c - 55 ELSE IF c >= 97 /\ c <= 122 THEN c - 87 ELSE -1
\* parse_base_36: number.saturating_mul(36).saturating_add(digit)   (!) saturates, never wraps, never fails on overflow
Sat36(n, d) == LET m == IF n > 59652323 THEN MaxI ELSE n * 36 IN IF m > MaxI - d THEN MaxI ELSE m + d
Pow36 == <<1, 36, 1296, 46656, 1679616, 60466176>>
DigCh(d) == IF d < 10 THEN 48 + d ELSE 55 + d
\* to_base_36(len, n): the len LEAST significant digits   (!) a saturated 6/7-digit field is printed as MaxI mod 36^6
B36(len, n) == [i \in 1..len |-> DigCh((n \div Pow36[len - i + 1]) % 36)]
\* ansi::parse_next_number
ParseNext(x, c) == LET t == IF x > 214748364 THEN MaxI ELSE x * 10
                       u == IF t > MaxI - c THEN MaxI ELSE t + c IN u - 48

\* ------------------------------------------------------------------ command table
\* kind "imm"  : no parameters, executed by the command letter itself (push_command)
\*      "fix"  : fixed fields pw[1..n] (base-36 digits each); parse returns Ok(false) on the last digit
\*      "tail" : fixed fields followed by free text; parse never returns Ok(false): ends at '|' or LF only
\*      "pal"  : RIP_SET_PALETTE, 16 two-digit entries, Ok(false) at parameter_state 31
\*      "poly" : npoints:2 then two-digit coordinates; Ok(false) when parameter_state >= (npoints + 1) * 4   (!)
\*      "var"  : text variable $...$, Ok(false) at the closing '$'
\* pw = widths consumed by parse, rw = widths printed by to_rip_string, flag = index of the field that is a
\* boolean ("ch == '1'", any character accepted (!)) or 0, fm = parameter_state -> field index
\* (no operator parameter or bound variable of this module may be called l, st, hist ...: the trace / MC modules declare those
\* as VARIABLES, and TLC then stops treating the definitions below as constants - 1000 x slower)
FieldMap(pw) == FoldLeft(LAMBDA acc, i : acc \o [k \in 1..pw[i] |-> i], <<>>, [i \in 1..Len(pw) |-> i])
Cmd(lv, ch, kind, pw, rw, flag) == [lvl |-> lv, ch |-> ch, kind |-> kind, pw |-> pw, rw |-> rw, flag |-> flag, fm |-> FieldMap(pw)]
Imm(lv, ch) == Cmd(lv, ch, "imm", <<>>, <<>>, 0)
Fix(lv, ch, w) == Cmd(lv, ch, "fix", w, w, 0)
TailC(lv, ch, w) == Cmd(lv, ch, "tail", w, w, 0)
W2(n) == [i \in 1..n |-> 2]

Cmds == <<
  \* ---- level 0
  Cmd(0, 119, "fix", <<2, 2, 2, 2, 1, 1>>, <<2, 2, 2, 2, 1, 1>>, 5),   \*  1 w RIP_TEXT_WINDOW  x0 y0 x1 y1 wrap(flag) size
  Fix(0, 118, W2(4)),                  \*  2 v RIP_VIEWPORT
  Imm(0, 42),                          \*  3 * RIP_RESET_WINDOWS
  Imm(0, 101),                         \*  4 e RIP_ERASE_WINDOW
  Imm(0, 69),                          \*  5 E RIP_ERASE_VIEW
  Fix(0, 103, W2(2)),                  \*  6 g RIP_GOTOXY
  Imm(0, 72),                          \*  7 H RIP_HOME
  Imm(0, 62),                          \*  8 > RIP_ERASE_EOL
  Fix(0, 99, W2(1)),                   \*  9 c RIP_COLOR
  Cmd(0, 81, "pal", <<>>, <<>>, 0),    \* 10 Q RIP_SET_PALETTE
  Fix(0, 97, W2(2)),                   \* 11 a RIP_ONE_PALETTE
  Fix(0, 87, W2(1)),                   \* 12 W RIP_WRITE_MODE
  Fix(0, 109, W2(2)),                  \* 13 m RIP_MOVE
  TailC(0, 84, <<>>),                   \* 14 T RIP_TEXT
  TailC(0, 64, W2(2)),                  \* 15 @ RIP_TEXT_XY
  Fix(0, 89, W2(4)),                   \* 16 Y RIP_FONT_STYLE
  Fix(0, 88, W2(2)),                   \* 17 X RIP_PIXEL
  Fix(0, 76, W2(4)),                   \* 18 L RIP_LINE
  Fix(0, 82, W2(4)),                   \* 19 R RIP_RECTANGLE
  Fix(0, 66, W2(4)),                   \* 20 B RIP_BAR
  Fix(0, 67, W2(3)),                   \* 21 C RIP_CIRCLE
  Fix(0, 79, W2(6)),                   \* 22 O RIP_OVAL
  Fix(0, 111, W2(4)),                  \* 23 o RIP_FILLED_OVAL
  Fix(0, 65, W2(5)),                   \* 24 A RIP_ARC
  Fix(0, 86, W2(6)),                   \* 25 V RIP_OVAL_ARC
  Fix(0, 73, W2(5)),                   \* 26 I RIP_PIE_SLICE
  Fix(0, 105, W2(6)),                  \* 27 i RIP_OVAL_PIE_SLICE
  Fix(0, 90, W2(9)),                   \* 28 Z RIP_BEZIER
  Cmd(0, 80, "poly", <<2>>, <<2>>, 0), \* 29 P RIP_POLYGON
  Cmd(0, 112, "poly", <<2>>, <<2>>, 0),\* 30 p RIP_FILL_POLYGON
  Cmd(0, 108, "poly", <<2>>, <<2>>, 0),\* 31 l RIP_POLYLINE
  Fix(0, 70, W2(3)),                   \* 32 F RIP_FILL
  Fix(0, 61, <<2, 4, 2>>),             \* 33 = RIP_LINE_STYLE
  Fix(0, 83, W2(2)),                   \* 34 S RIP_FILL_STYLE
  Fix(0, 115, W2(9)),                  \* 35 s RIP_FILL_PATTERN
  Cmd(0, 36, "var", <<>>, <<>>, 0),    \* 36 $ text variable (not a RIPscrip 1.54 command)
  \* ---- level 1
  TailC(1, 77, <<2, 2, 2, 2, 2, 1, 1, 5>>),            \* 37 1M RIP_MOUSE
  Imm(1, 75),                                         \* 38 1K RIP_KILL_MOUSE_FIELDS
  Fix(1, 84, W2(5)),                                  \* 39 1T RIP_BEGIN_TEXT
  Cmd(1, 116, "tail", <<1>>, <<1>>, 1),               \* 40 1t RIP_REGION_TEXT  justify(flag) text
  Imm(1, 69),                                         \* 41 1E RIP_END_TEXT
  Fix(1, 67, <<2, 2, 2, 2, 1>>),                      \* 42 1C RIP_GET_IMAGE
  Fix(1, 80, <<2, 2, 2, 1>>),                         \* 43 1P RIP_PUT_IMAGE
  TailC(1, 87, <<>>),                                  \* 44 1W RIP_WRITE_ICON  res:1 (raw character) + file name = all text
  TailC(1, 73, <<2, 2, 2, 1, 2>>),                     \* 45 1I RIP_LOAD_ICON
  Cmd(1, 66, "fix", W2(3) \o <<4>> \o W2(10) \o <<7>>, W2(3) \o <<4>> \o W2(10) \o <<6>>, 0),
                                                      \* 46 1B RIP_BUTTON_STYLE  (!) res is read as 7 digits, printed as 6
  TailC(1, 85, <<2, 2, 2, 2, 2, 1, 1>>),               \* 47 1U RIP_BUTTON
  TailC(1, 68, <<3, 2>>),                              \* 48 1D RIP_DEFINE
  TailC(1, 27, <<1, 3>>),                              \* 49 1<ESC> RIP_QUERY
  Fix(1, 71, W2(6)),                                  \* 50 1G RIP_COPY_REGION
  TailC(1, 82, <<>>),                                  \* 51 1R RIP_READ_SCENE  res:8 raw characters + file name = all text
  TailC(1, 70, <<2, 4>>),                              \* 52 1F RIP_FILE_QUERY
  \* ---- level 9
  TailC(9, 27, <<1, 1, 2, 4>>)                         \* 53 9<ESC> RIP_ENTER_BLOCK_MODE
>>
NCmds == Len(Cmds)
IdTextWindow == 1
IdResetWindows == 3
IdWriteIcon == 44
Find(lv, c) == LET S == {i \in 1..NCmds : Cmds[i].lvl = lv /\ Cmds[i].ch = c} IN IF S = {} THEN 0 ELSE CHOOSE i \in S : TRUE
LookTab == [lv \in {0, 1, 9} |-> [c \in 0..127 |-> Find(lv, c)]]
Look(lv, c) == IF c >= 0 /\ c <= 127 /\ lv \in {0, 1, 9} THEN LookTab[lv][c] ELSE 0
\* number of parameter characters after which parse returns Ok(false) (fix / pal), 0 = never by width
Total(id) == IF Cmds[id].kind = "pal" THEN 32 ELSE Len(Cmds[id].fm)
PolyEnd(n) == (n + 1) * 4            \* (!) the last coordinate digit is parameter_state 4 * npoints + 1: three characters too many

\* ------------------------------------------------------------------ state
\* tag/lvl/ps/hc/cnt = State, ReadCommand level, parameter_state, command.is_some(), rip_counter  (all observable by the hook)
\* cmd, f, pts, txt  = the command being assembled: table index, numeric fields, palette / point list, text
\* ansi, astart, an, a1 = fallback_parser.state (D Default, E ReadEscapeSequence, C ReadCSISequence(astart), O other),
\*                        min(len(parsed_numbers), 2), parsed_numbers[0]
\* rip = enable_rip, susp = bgi.suspend_text
InitSt == [tag |-> "Default", lvl |-> 0, ps |-> 0, hc |-> FALSE, cmd |-> 0, f |-> <<>>, pts |-> <<>>, txt |-> <<>>, cnt |-> 0,
           ansi |-> "D", astart |-> FALSE, an |-> 0, a1 |-> 0, rip |-> TRUE, susp |-> FALSE]
InParams(st) == st.tag = "ReadParams" \/ st.tag = "SkipEOL"
\* result of one character: next state, executed commands (RIP text), outcome class, characters handed to the fallback parser
R(s, ex, res) == [st |-> s, exec |-> ex, res |-> res, fed |-> <<>>]
Goto(st, tag, lvl) == [st EXCEPT !.tag = tag, !.lvl = lvl]

\* ------------------------------------------------------------------ Command::to_rip_string
Flat(ss) == FoldLeft(LAMBDA acc, x : acc \o x, <<>>, ss)
Prefix(cm) == <<124>> \o (IF cm.lvl = 1 THEN <<49>> ELSE IF cm.lvl = 9 THEN <<57>> ELSE <<>>) \o <<cm.ch>>
Render(id, f, pts, txt) ==
  LET cm == Cmds[id] IN
  CASE cm.kind = "imm" -> Prefix(cm)
    [] cm.kind = "pal" -> Prefix(cm) \o Flat([i \in 1..Len(pts) |-> B36(2, pts[i])])
    [] cm.kind = "poly" -> Prefix(cm) \o B36(2, Len(pts) \div 2) \o Flat([i \in 1..Len(pts) |-> B36(2, pts[i])])   \* (!) count = points seen, not npoints
    [] cm.kind = "var" -> Prefix(cm) \o txt \o <<36>>
    [] OTHER -> Prefix(cm) \o Flat([i \in 1..Len(cm.rw) |-> IF i = cm.flag THEN <<48 + f[i]>> ELSE B36(cm.rw[i], f[i])])
                \o (IF id = IdWriteIcon /\ txt = <<>> THEN <<0>> ELSE txt)      \* (!) WriteIcon.res defaults to NUL

\* ------------------------------------------------------------------ Command::parse
\* result r: "more" = Ok(true), "done" = Ok(false), "err" = Err
PR(r, f, pts, txt) == [r |-> r, f |-> f, pts |-> pts, txt |-> txt]
ListPush(pts, s, d) == IF s % 2 = 0 THEN Append(pts, d) ELSE [pts EXCEPT ![Len(pts)] = Sat36(@, d)]
ParseCmd(st, c) ==
  LET s == st.ps  d == Dig(c) IN
  IF st.cmd = 0 THEN PR("more", st.f, st.pts, st.txt)                          \* unknown command (only after a drift was adopted)
  ELSE LET cm == Cmds[st.cmd] IN
  CASE cm.kind = "fix" \/ cm.kind = "tail" ->
         IF s < Len(cm.fm)
         THEN LET i == cm.fm[s + 1] IN
              IF i = cm.flag THEN PR("more", [st.f EXCEPT ![i] = IF c = 49 THEN 1 ELSE 0], st.pts, st.txt)
              ELSE IF d < 0 THEN PR("err", st.f, st.pts, st.txt)
              ELSE PR(IF cm.kind = "fix" /\ s = Len(cm.fm) - 1 THEN "done" ELSE "more", [st.f EXCEPT ![i] = Sat36(@, d)], st.pts, st.txt)
         ELSE IF cm.kind = "tail" THEN PR("more", st.f, st.pts, Append(st.txt, c))
         ELSE PR("err", st.f, st.pts, st.txt)                                   \* "Invalid state" (unreachable: the command is taken at Ok(false))
    [] cm.kind = "pal" ->
         IF d < 0 THEN PR("err", st.f, st.pts, st.txt)
         ELSE PR(IF s < 31 THEN "more" ELSE "done", st.f, ListPush(st.pts, s, d), st.txt)
    [] cm.kind = "poly" ->
         IF d < 0 THEN PR("err", st.f, st.pts, st.txt)
         ELSE IF s < 2 THEN PR("more", [st.f EXCEPT ![1] = Sat36(@, d)], st.pts, st.txt)
         ELSE PR(IF s < PolyEnd(st.f[1]) THEN "more" ELSE "done", st.f, ListPush(st.pts, s, d), st.txt)
    [] cm.kind = "var" ->
         IF c = 36 THEN PR("done", st.f, st.pts, st.txt) ELSE PR("more", st.f, st.pts, Append(st.txt, c))
    [] OTHER -> PR("err", st.f, st.pts, st.txt)                                 \* "imm" commands are never parsed

\* ------------------------------------------------------------------ record_rip_command (+ the two effects of run on the lexer)
Effects(st, id, f) ==
  IF id = IdTextWindow /\ f = <<0, 0, 0, 0, 0, 0>> THEN [st EXCEPT !.susp = ~@]
  ELSE IF id = IdResetWindows THEN [st EXCEPT !.susp = FALSE]                   \* Bgi::graph_defaults
  ELSE st
\* self.command.take() + record_rip_command; `s` already carries the new tag
Exe(s) ==
  IF s.cmd = 0 THEN R([s EXCEPT !.hc = FALSE, !.cnt = @ + 1], <<<<63>>>>, "any")
  ELSE R([Effects(s, s.cmd, s.f) EXCEPT !.hc = FALSE, !.cnt = @ + 1, !.cmd = 0, !.f = <<>>, !.pts = <<>>, !.txt = <<>>],
         <<Render(s.cmd, s.f, s.pts, s.txt)>>, "any")                          \* the outcome is whatever Command::run returns
\* start_command
Start(st, id) == R([st EXCEPT !.tag = "ReadParams", !.lvl = 0, !.ps = 0, !.hc = TRUE, !.cmd = id,
                              !.f = [i \in 1..Len(Cmds[id].pw) |-> 0], !.pts = <<>>, !.txt = <<>>], <<>>, "ok")
\* push_command: (!) an unfinished command stays in self.command (has_command unchanged)
Push(st, id) == R([Effects(st, id, <<>>) EXCEPT !.tag = "GotRipStart", !.lvl = 0, !.cnt = @ + 1], <<Render(id, <<>>, <<>>, <<>>)>>, "any")

\* ------------------------------------------------------------------ parse_parameter
\* some = Some(..) was returned (in state SkipEOL a None moves on to ReadParams)
PP(r, some) == [st |-> r.st, exec |-> r.exec, res |-> r.res, fed |-> <<>>, some |-> some]
End(st, tag) == IF st.hc THEN Exe(Goto(st, tag, 0)) ELSE R(Goto(st, tag, 0), <<>>, "ok")
ParseParam(st, c, p) ==                  \* p = ParseCmd(st, c), passed as an argument so that it is evaluated once
  CASE c = 92 -> PP(R(Goto(st, "SkipEOL", 0), <<>>, "ok"), TRUE)                \* line continuation
    [] c = 13 -> PP(R(st, <<>>, "ok"), TRUE)
    [] c = 10 -> PP(End(st, "Default"), TRUE)                                   \* a line end executes the command
    [] c = 124 -> PP(End(st, "ReadCommand"), TRUE)                              \* so does the next '|'
    [] p.r = "more" -> PP(R([st EXCEPT !.ps = @ + 1, !.f = p.f, !.pts = p.pts, !.txt = p.txt], <<>>, "ok"), FALSE)
    [] p.r = "done" -> PP(Exe([st EXCEPT !.tag = "GotRipStart", !.lvl = 0, !.f = p.f, !.pts = p.pts, !.txt = p.txt]), TRUE)   \* parameter_state is NOT advanced
    [] OTHER -> PP(R([Goto(st, "Default", 0) EXCEPT !.f = <<>>, !.pts = <<>>, !.txt = <<>>], <<>>, "ok"), TRUE)
                                         \* (!) error: state Default, the dead command stays in self.command (has_command = true)

\* ------------------------------------------------------------------ the fallback ANSI parser, as far as the lexer looks at it
IsDigit(c) == c >= 48 /\ c <= 57
AnsiStep(st, c) ==
  CASE st.ansi = "D" -> R(IF c = 27 THEN [st EXCEPT !.ansi = "E"] ELSE st, <<>>, "ok")
    [] st.ansi = "E" ->
         IF c = 91 THEN R([st EXCEPT !.ansi = "C", !.astart = TRUE, !.an = 0, !.a1 = 0], <<>>, "ok")
         ELSE IF c = 93 \/ c = 80 \/ c = 95 THEN R([st EXCEPT !.ansi = "O"], <<>>, "ok")            \* OSC, DCS, APS
         ELSE R([st EXCEPT !.ansi = "D"], <<>>, IF (c >= 48 /\ c <= 126) \/ c \in {12, 7, 8, 9, 127, 27, 10, 13} THEN "ok" ELSE "err")
    [] st.ansi = "C" ->
         IF IsDigit(c) THEN R([st EXCEPT !.astart = FALSE, !.an = IF @ = 0 THEN 1 ELSE @,
                                         !.a1 = IF st.an = 0 THEN c - 48 ELSE IF st.an = 1 THEN ParseNext(@, c) ELSE @], <<>>, "ok")
         ELSE IF c = 59 THEN R([st EXCEPT !.astart = FALSE, !.an = IF @ < 2 THEN @ + 1 ELSE 2, !.a1 = IF st.an = 0 THEN 0 ELSE @], <<>>, "ok")
         ELSE IF c = 78 \/ c = 124 THEN R(st, <<>>, "ok")                                           \* (!) CSI N / CSI | do not leave the CSI state
         ELSE IF c = 63 \/ c = 61 \/ c = 60 \/ c = 33 THEN (IF st.astart THEN R([st EXCEPT !.ansi = "O"], <<>>, "ok") ELSE R(st, <<>>, "err"))
         ELSE IF c = 42 \/ c = 36 \/ c = 32 THEN R([st EXCEPT !.ansi = "O"], <<>>, "ok")
         ELSE R([st EXCEPT !.ansi = "D"], <<>>, "any")                                              \* final byte or error: back to Default
    [] OTHER -> R(st, <<>>, "any")
\* characters handed to the fallback parser one after the other (`?`: an error ends the hand-over; only the last one can fail
\* because the parser is in state Default whenever the lexer is not)
Feed(st, cs) == [FoldLeft(LAMBDA acc, c : AnsiStep(acc.st, c), R(st, <<>>, "ok"), cs) EXCEPT !.fed = cs]
FeedUnlessSuspended(st, cs) == IF st.susp THEN R(st, <<>>, "ok") ELSE Feed(st, cs)

\* ------------------------------------------------------------------ Parser::print_char
ReadCommand(st, c) ==
  IF c = 33 THEN R(Goto(st, "GotRipStart", 0), <<>>, "ok")
  ELSE LET id == Look(st.lvl, c) IN
       IF id # 0 THEN (IF Cmds[id].kind = "imm" THEN Push(st, id) ELSE Start(st, id))
       ELSE IF st.lvl # 0 THEN R(Goto(st, "Default", 0), <<>>, "ok")            \* unknown level 1 / 9 command: swallowed
       ELSE IF c = 49 THEN R(Goto(st, "ReadCommand", 1), <<>>, "ok")
       ELSE IF c = 57 THEN R(Goto(st, "ReadCommand", 9), <<>>, "ok")
       ELSE IF c = 35 THEN R(Goto(st, "EndRip", 0), <<>>, "ok")                 \* RIP_NO_MORE
       ELSE FeedUnlessSuspended(Goto(st, "Default", 0), <<33, 124, c>>)         \* not a command: "!|c" is text

InDefault(st, c) ==
  IF st.ansi = "C" /\ c = 33
  THEN LET s == [st EXCEPT !.ansi = "D"] IN      \* CSI Ps ! : RIPscrip query / disable / enable, also while disabled or suspended
       IF st.an = 0 \/ st.a1 = 0 THEN R(s, <<>>, "ok")
       ELSE IF st.a1 = 1 THEN R([s EXCEPT !.rip = FALSE], <<>>, "ok")
       ELSE IF st.a1 = 2 THEN R([s EXCEPT !.rip = TRUE], <<>>, "ok")
       ELSE R(s, <<>>, "err")
  ELSE IF st.ansi = "D" /\ ~st.rip THEN Feed(st, <<c>>)                          \* (!) not subject to suspend_text
  ELSE IF st.ansi = "D" /\ c = 33 THEN R(Goto(st, "GotRipStart", 0), <<>>, "ok")
  ELSE FeedUnlessSuspended(st, <<c>>)

SkipEOL(st, c, pp) ==                      \* pp = ParseParam(st, c, ..)
  IF c = 13 THEN R(st, <<>>, "ok")
  ELSE IF c = 10 THEN R(Goto(st, "ReadParams", 0), <<>>, "ok")                   \* the continued line: the command is NOT executed
  ELSE IF pp.some THEN R(pp.st, pp.exec, pp.res)
  ELSE R(Goto(pp.st, "ReadParams", 0), pp.exec, pp.res)                          \* (!) "\x" is x: no way to escape '|', '!' or '\'

\* cls: the client set buf.terminal_state.cleared_screen (nothing inside the engine does): rip_counter is bumped,
\* graph_defaults clears suspend_text
RipStepX(st0, c, cls) ==
  LET st == IF cls THEN [st0 EXCEPT !.cnt = @ + 1, !.susp = FALSE] ELSE st0 IN
  CASE st.tag = "ReadParams" -> LET pp == ParseParam(st, c, ParseCmd(st, c)) IN R(pp.st, pp.exec, pp.res)
    [] st.tag = "SkipEOL" -> SkipEOL(st, c, ParseParam(st, c, ParseCmd(st, c)))
    [] st.tag = "EndRip" ->
         IF c = 13 THEN R(st, <<>>, "ok") ELSE IF c = 124 THEN R(Goto(st, "ReadCommand", 0), <<>>, "ok") ELSE R(Goto(st, "Default", 0), <<>>, "ok")
    [] st.tag = "ReadCommand" -> ReadCommand(st, c)
    [] st.tag = "GotRipStart" ->
         IF c = 33 \/ c = 10 \/ c = 13 THEN R(st, <<>>, "ok")
         ELSE IF c = 124 THEN R(Goto(st, "ReadCommand", 0), <<>>, "ok")
         ELSE FeedUnlessSuspended(Goto(st, "Default", 0), <<33, c>>)
    [] OTHER -> InDefault(st, c)
RipStep(st, c) == RipStepX(st, c, FALSE)
\* does the text caret move?  1: printable ASCII was handed to a fallback parser in its ground state; 0: nothing was handed over
\* and no command ran; 2: unknown (a command ran, control characters, escape sequences)
Printable(cs) == \A i \in 1..Len(cs) : cs[i] >= 32 /\ cs[i] <= 126
CaretMoves(pre, x) == IF x.exec # <<>> THEN 2 ELSE IF x.fed = <<>> THEN 0 ELSE IF pre.ansi = "D" /\ Printable(x.fed) THEN 1 ELSE 2

\* a whole string; result = final state + all executed commands
RunStr(st, cs) == FoldLeft(LAMBDA acc, c : LET r == RipStep(acc.st, c) IN [st |-> r.st, exec |-> acc.exec \o r.exec], [st |-> st, exec |-> <<>>], cs)
=============================================================================
