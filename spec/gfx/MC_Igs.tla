------------------------------- MODULE MC_Igs -------------------------------
(* R1: exhaustive exploration of the IGS lexer / loop model over a token alphabet to bounded depth, from the empty     *)
(* lexer and from a few prefixes that put it deep into a loop header (so that loop execution is inside the bound).     *)
(* R2 (Gen_Igs.cfg): one shortest input per lexer class, replayed into the real engine by harness/src/igs.rs.          *)
EXTENDS Igs, TLC, Json
LOCAL INSTANCE SequencesExt
CONSTANTS MaxLen,        \* characters after the prefix
          MaxPolls,      \* get_next_action calls between two characters
          Wide           \* TRUE: the full alphabet; FALSE: the generator's smaller one
VARIABLES st, hist, last, np, nsuf
vars == <<st, hist, last, np, nsuf>>

S(str) == str            \* (readability) strings below are tuples of character codes
\* G # & L W t(TimeAPause) h(no command, text) 0 1 9 - , : _ @ x y + ! | CR LF > space
Alphabet == {71, 35, 38, 76, 87, 116, 104, 48, 49, 57, 45, 44, 58, 95, 64, 120, 121, 43, 33, 124, 13, 10, 62, 32}
\* one representative per branch the code takes in the lexer's current mode (characters not listed fall into the mode's
\* "anything else" branch, represented by h / x): lets the search go deeper than the full alphabet does
Relevant(s) ==
  CASE s.state = "Default" -> {71, 104, 10}
    [] s.state = "GotIgsStart" -> {35, 71, 104}
    [] s.state = "SkipNewLine" -> {13, 71, 104, 10}
    [] s.state = "ReadCommandStart" -> {13, 10, 38, 76, 87, 116, 71, 104, 58, 48}
    [] s.cmd = "WriteText" /\ Len(s.nums) >= 3 -> {64, 10, 13, 104, 58}
    [] s.cmd = "LoopCommand" /\ Len(s.nums) >= 4 ->
         (CASE s.ls = "Start" -> {44, 49, 104, 10}
            [] s.ls = "ReadCommand" -> {64, 124, 44, 76, 87, 104, 38}
            [] s.ls = "ReadCount" -> {48, 49, 57, 44, 104, 10}
            [] OTHER -> {95, 10, 13, 44, 58, 120, 121, 43, 45, 33, 48, 49, 57, 104})
    [] OTHER -> {32, 62, 13, 95, 10, 48, 49, 57, 44, 58, 45, 104}
Chars(s) == IF Wide THEN Alphabet ELSE Relevant(s)
XOk == [k |-> "ok", act |-> "NoUpdate", ms |-> 0]
XErr == [k |-> "err", act |-> "", ms |-> 0]
Oracles == {XOk, XErr}

StartStrings == {
  <<>>,
  <<71, 35>>,                                                        \* G#
  <<71, 35, 87, 44, 44, 44>>,                                        \* G#W,,,        text mode of W
  <<71, 35, 38, 48, 44, 50, 44, 49, 44, 44, 76>>,                    \* G#&0,2,1,,L   0 -> 2 step 1
  <<71, 35, 38, 57, 44, 44, 49, 44, 44, 76, 44, 49, 44>>,            \* G#&9,,1,,L,1, 9 -> 0 step 1, one parameter wanted
  <<71, 35, 38, 44, 57, 44, 44, 44, 76, 44, 44>>,                    \* G#&,9,,,L,,   9 -> 0 step 0 (!)
  <<71, 35, 38, 49, 44, 57,57,57,57,57,57,57,57,57,57, 44, 57,57,57,57,57,57,57,57,57,57, 44, 44, 76, 44, 44>>,   \* G#&1,<max>,<max>,,L,, : i + step overflows
  <<71, 35, 38, 57,57,57,57,57,57,57,57,57,57, 44, 44, 49, 44, 44, 76, 44, 44>>      \* G#&<max>,,1,,L,, : |to - 1 - i|
}

Init == /\ \E p \in StartStrings : st = Feed(InitSt, p, XOk) /\ hist = p
        /\ last = [kind |-> "init", ex |-> <<>>, res |-> NoUpd, ploop |-> <<>>]
        /\ np = 0 /\ nsuf = 0

Alive == last.res.k # "panic"          \* after a panic the engine's state is not defined by the model
\* (operator arguments are evaluated once, a LET body at every use)
Apply(o, kind, xr, h, n, k) ==
  /\ (o.ex = <<>> => xr = XOk)            \* the oracle only matters when the executor is called
  /\ st' = o.st /\ hist' = h /\ np' = n /\ nsuf' = k
  /\ last' = [kind |-> kind, ex |-> o.ex, res |-> o.res, ploop |-> st.loop]
Char == /\ Alive /\ nsuf < MaxLen
        /\ \E c \in Chars(st), xr \in Oracles : Apply(IgsStep(st, c, xr), "ch", xr, Append(hist, c), 0, nsuf + 1)
Poll == /\ Alive /\ np < MaxPolls /\ st.loop # <<>>
        /\ \E xr \in Oracles : Apply(IgsPoll(st, xr), "poll", xr, hist, np + 1, nsuf)
Next == Char \/ Poll
Spec == Init /\ [][Next]_vars
\* ---- invariants
IsNum(v) == v \in Int /\ v >= 0 /\ v <= 2147483599
Total ==
  /\ st.state \in States /\ st.ls \in LoopStates
  /\ (st.state = "ReadCommand") <=> (st.cmd # "")
  /\ st.cmd \in CmdNames \cup {""}
  /\ \A k \in 1..Len(st.nums) : IsNum(st.nums[k])
  /\ Len(st.loop) <= 1
  /\ last.res.k \in {"ok", "err", "fb", "none", "panic"}
  /\ (last.res.k = "none") => last.kind = "poll"
  /\ \A k \in 1..Len(last.ex) : last.ex[k].cmd \in CmdNames
  /\ (st.cmd = "LoopCommand" /\ st.ls \in {"ReadCount", "ReadParameter"}) => Len(st.nums) = 5
  /\ (st.cmd = "LoopCommand" /\ st.ls = "ReadParameter") => (st.lp # <<>> /\ \A g \in 1..Len(st.lp) : st.lp[g] # <<>>)
  /\ (st.loop # <<>>) => (st.loop[1].ps # <<>> /\ \A g \in 1..Len(st.loop[1].ps) : st.loop[1].ps[g] # <<>>)
\* C20: no character and no poll hands more than IterBound (= 1) commands to the executor
ExecBound == Len(last.ex) <= IterBound
\* everything the lexer stores is bounded by the number of characters fed
NChars(lp) == FoldLeft(LAMBDA acc, g : acc + FoldLeft(LAMBDA a2, s : a2 + Len(s), 0, g), 0, lp)
StoreBounded == /\ Len(st.nums) <= Len(hist)
                /\ Len(st.str) <= Len(hist)
                /\ NParams(st.lp) + NChars(st.lp) <= Len(hist)
\* a command terminator (":" / "@" / the closing separator of a loop) leaves the lexer at the start of the next command
TerminatorReturns == (last.kind = "ch" /\ last.ex # <<>> /\ Alive) => st.state = "ReadCommandStart"
\* ... and from there a line end and one ordinary character lead back to Default with an empty number list
LineEndRecovers == (st.state = "ReadCommandStart" /\ Alive) =>
                     LET s2 == Feed(st, <<10, 104>>, XOk) IN s2.state = "Default" /\ s2.nums = <<>>
\* no state traps the lexer: the escape character strictly decreases the rank (Igs.tla, Rank/Esc)
NoTrap == (Alive /\ Rank(st) > 0) => LET o == IgsStep(st, Esc(st), XOk) IN o.res.k = "panic" \/ Rank(o.st) < Rank(st)
\* loop engine: an iteration that ran makes progress unless step = 0; then - and only then - the loop never ends (!) D2
LoopProgress ==
  (last.kind = "poll" /\ last.ploop # <<>> /\ st.loop # <<>> /\ Alive) =>
     LET a == last.ploop[1]  b == st.loop[1] IN
     IF a.step > 0 THEN Remaining(b) >= 0 /\ Remaining(b) < Remaining(a) ELSE (b = a /\ Remaining(b) = -1)
OnlyStepZeroUnbounded == (st.loop # <<>> /\ Remaining(st.loop[1]) = -1) => st.loop[1].step = 0
\* (!) D1: with the engine's lexer the delay is never read, so a loop never pauses
DelayNeverRead == ReadDelay \/ ((st.loop # <<>> => st.loop[1].delay = 0) /\ ~(last.res.k = "ok" /\ last.res.act = "Pause"))
\* the proposed repairs do what they are meant to: no arithmetic panic (D3), every loop ends (D2), a delay pauses (D1)
RepairD3 == ("D3" \in Fixes) => last.res.k # "panic"
RepairD2 == ("D2" \in Fixes) => (st.loop # <<>> => Remaining(st.loop[1]) >= 0)

\* ---- views / generator
ViewMC == <<st, last, np, Len(hist), nsuf>>
Class == <<st.state, st.cmd, Len(st.nums), st.ls, st.gdc, st.loop # <<>>, Len(st.lp), last.res.k, last.ex # <<>>>>
Emit == (Len(hist) > 0) => PrintT(<<"WITNESS", ToJson([hist |-> hist])>>)
=============================================================================
