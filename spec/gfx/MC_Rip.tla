------------------------------- MODULE MC_Rip -------------------------------
(***************************************************************************)
(* R1 for the RIPscrip lexer model (Rip.tla): TLC explores the lexer over a  *)
(* token alphabet (every command letter of level 0 / 1 / 9, the digits 0 1 2 *)
(* Z, a lower-case digit, two characters that are not base-36 digits, | ! \  *)
(* CR LF # $ ESC [ ;) to a bounded depth.  The history and the parsed values *)
(* are hidden by VIEW (the view keeps exactly what the future behaviour      *)
(* depends on: state, command, parameter_state, npoints of a polygon,        *)
(* "text window still all zero", the ANSI side and the two switches), so the *)
(* state space is the lexer automaton itself, not the set of strings.        *)
(* Gen cfg: one shortest string per (state, command, parameter_state, ANSI   *)
(* state) class, replayed into the real parser by harness/src/rip.rs.        *)
(* The ASSUMEs are unit tests of the model against the 51 round-trip vectors *)
(* of the engine's own test-suite (src/parsers/rip/mod.rs) and pin down the  *)
(* deviations (!) from doc/ripscript/154/ripscript.txt.                      *)
(***************************************************************************)
EXTENDS Rip, TLC, Json, FiniteSets
CONSTANTS MaxDepth,      \* characters per string
          TailSlack,     \* how far behind its last fixed field a text-tail command is followed
          PolyMax,       \* how far a polygon's parameter_state is followed
          Export
VARIABLES st, hist
vars == <<st, hist>>

Letters == {Cmds[i].ch : i \in 1..NCmds}
Tokens == Letters \cup {48, 49, 50, 90, 57, 122, 46, 32, 124, 33, 92, 13, 10, 35, 36, 27, 91, 59}

Init == st = InitSt /\ hist = <<>>
Do(c, cls) == st' = RipStepX(st, c, cls).st /\ hist' = Append(hist, c)
Next == (\E c \in Tokens : Do(c, FALSE)) \/ Do(32, TRUE)
Spec == Init /\ [][Next]_vars

Kind(s) == IF s.cmd = 0 THEN "none" ELSE Cmds[s.cmd].kind
Bounded ==
  /\ Len(hist) <= MaxDepth
  /\ (InParams(st) /\ Kind(st) \in {"tail", "var"}) => st.ps <= Len(Cmds[st.cmd].fm) + TailSlack
  /\ (InParams(st) /\ Kind(st) = "poly") => st.ps <= PolyMax

\* ---- what the future depends on
\* all npoints with PolyEnd(npoints) > PolyMax behave alike inside the bound
PolyCap == PolyMax \div 4
PolyN == IF Kind(st) = "poly" /\ InParams(st) THEN (IF st.f[1] > PolyCap THEN PolyCap ELSE st.f[1]) ELSE 0
W0 == InParams(st) /\ st.cmd = IdTextWindow /\ st.f = <<0, 0, 0, 0, 0, 0>>
A1c == IF st.a1 > 3 THEN 3 ELSE st.a1
ViewMC == IF InParams(st) THEN <<st.tag, st.cmd, st.ps, PolyN, W0, st.rip, st.susp>>
          ELSE <<st.tag, st.lvl, st.hc, st.ansi, st.astart, st.an, A1c, st.rip, st.susp>>
ViewGen == IF InParams(st) THEN <<st.tag, st.cmd, st.ps>> ELSE <<st.tag, st.lvl, st.ansi, st.rip>>

\* ---- invariants
Tags == {"Default", "GotRipStart", "ReadCommand", "ReadParams", "SkipEOL", "EndRip"}
TypeOK ==
  /\ st.tag \in Tags /\ st.lvl \in {0, 1, 9} /\ st.ps >= 0 /\ st.cnt >= 0 /\ st.hc \in BOOLEAN
  /\ st.cmd \in 0..NCmds /\ st.ansi \in {"D", "E", "C", "O"} /\ st.an \in 0..2 /\ st.a1 >= 0
  /\ (st.tag # "ReadCommand" => st.lvl = 0)
\* parse_parameter does self.command.as_mut().unwrap(): there is a command whenever parameters are read, and it takes parameters
UnwrapSafe == InParams(st) => (st.hc /\ st.cmd # 0 /\ Kind(st) # "imm")
\* the fallback parser is at rest whenever the lexer is inside a RIP sequence (its state can only change in state Default)
AnsiQuiet == st.tag # "Default" => st.ansi = "D"
\* no command "stalls": a command that ends by itself never gets past its last digit; only text-tail commands
\* (and "$..$") consume without bound - and those end at '|' / LF (StepInv)
NoStall ==
  InParams(st) =>
    CASE Kind(st) = "fix" -> st.ps <= Len(Cmds[st.cmd].fm) - 1
      [] Kind(st) = "pal" -> st.ps <= 31 /\ Len(st.pts) = (st.ps + 1) \div 2
      [] Kind(st) = "poly" -> st.ps <= PolyEnd(st.f[1]) /\ (st.ps >= 2 => Len(st.pts) = (st.ps - 1) \div 2)
      [] OTHER -> TRUE
\* ... and it does complete: feeding '0' to a self-terminating command executes it after exactly the remaining digits
Feed0(s, n) == RunStr(s, [i \in 1..n |-> 48])
Remaining(s) == CASE Kind(s) = "fix" -> Len(Cmds[s.cmd].fm) - s.ps [] Kind(s) = "pal" -> 32 - s.ps [] OTHER -> 0
CompletesOk(r, rm) == /\ r.st.tag = "GotRipStart" /\ Len(r.exec) = 1 /\ ~r.st.hc /\ r.st.cnt = st.cnt + 1
                      /\ (rm > 1 => LET q == Feed0(st, rm - 1) IN InParams(q.st) /\ q.exec = <<>>)
Completes == (st.tag = "ReadParams" /\ Kind(st) \in {"fix", "pal"}) => CompletesOk(Feed0(st, Remaining(st)), Remaining(st))
\* per-character properties, for every token in every reachable state
StepOk(c, r) ==
  /\ Len(r.exec) <= 1 /\ r.st.cnt = st.cnt + Len(r.exec)                        \* at most one command per character
  /\ r.res \in {"ok", "err", "any"} /\ (r.exec # <<>> => r.res = "any")
  /\ (r.exec # <<>> => r.exec[1][1] = 124 /\ Len(r.exec[1]) >= 2)               \* what is executed is a RIP command text
  /\ (InParams(st) /\ c = 124) => (r.st.tag = "ReadCommand" /\ r.st.lvl = 0 /\ Len(r.exec) = 1 /\ ~r.st.hc)   \* '|' ends every command
  /\ (st.tag = "ReadParams" /\ c = 10) => (r.st.tag = "Default" /\ Len(r.exec) = 1 /\ ~r.st.hc)             \* so does a line end
  /\ (st.tag = "SkipEOL" /\ c = 10) => (r.st.tag = "ReadParams" /\ r.exec = <<>> /\ r.st.ps = st.ps)         \* except a continued line
  /\ (c = 10 /\ ~InParams(st)) => (r.st.tag = IF st.tag = "GotRipStart" THEN "GotRipStart" ELSE "Default")   \* after LF: text, or still "!"
  /\ (InParams(st) /\ InParams(r.st) /\ c \notin {92, 13, 10}) => (r.st.ps = st.ps + 1 /\ r.st.cmd = st.cmd)   \* one parameter character
  /\ (r.st.tag = "ReadParams" /\ ~InParams(st)) => (r.st.ps = 0 /\ r.st.hc /\ st.tag = "ReadCommand")        \* start_command
  /\ (r.fed # <<>>) => (r.st.tag = "Default" /\ r.exec = <<>> /\ r.fed[Len(r.fed)] = c)   \* text is handed over only in / into state Default
  /\ (~r.st.hc /\ st.hc) => Len(r.exec) = 1                                      \* a command leaves only by being executed
StepInv == \A c \in Tokens : StepOk(c, RipStep(st, c))
\* two line ends always lead back to text (or to a pending "!")
LineEndRecovers == RunStr(st, <<10, 10>>).st.tag \in {"Default", "GotRipStart"}

\* ---- generator
Emit == (Export /\ Len(hist) > 0) => PrintT(<<"WITNESS", ToJson([s |-> hist, tag |-> st.tag, cmd |-> st.cmd, ps |-> st.ps])>>)
EmitTable == (Export /\ hist = <<>>) =>
  \A i \in 1..NCmds : PrintT(<<"WITNESS", ToJson([t |-> "cmd", id |-> i, lvl |-> Cmds[i].lvl, ch |-> Cmds[i].ch, kind |-> Cmds[i].kind,
                                                    w |-> Total(i), s |-> <<>>])>>)

\* ---- unit tests of the model
RoundTrip(v) == LET r == RunStr(InitSt, <<33>> \o v \o <<124>>) IN r.exec = <<v>> /\ ~r.st.hc /\ r.st.tag = "ReadCommand"
Vectors == <<
  <<124, 119, 48, 48, 48, 48, 49, 66, 48, 77, 49, 48>>,
  <<124, 118, 48, 48, 48, 48, 50, 69, 49, 77>>,
  <<124, 42>>,
  <<124, 101>>,
  <<124, 69>>,
  <<124, 103, 48, 53, 48, 57>>,
  <<124, 72>>,
  <<124, 62>>,
  <<124, 99, 48, 65>>,
  <<124, 81, 48, 48, 48, 49, 48, 50, 48, 51, 48, 52, 48, 53, 48, 54, 48, 55, 48, 56, 48, 57, 48, 65, 48, 66, 48, 67, 48, 68, 48, 69, 48, 70>>,
  <<124, 97, 48, 53, 49, 66>>,
  <<124, 87, 48, 48>>,
  <<124, 109, 48, 53, 48, 57>>,
  <<124, 84, 104, 101, 108, 108, 111, 32, 119, 111, 114, 108, 100>>,
  <<124, 64, 48, 48, 49, 49, 104, 101, 108, 108, 111, 32, 119, 111, 114, 108, 100>>,
  <<124, 89, 48, 49, 48, 48, 48, 52, 48, 48>>,
  <<124, 88, 49, 49, 50, 50>>,
  <<124, 76, 48, 48, 48, 49, 48, 65, 48, 69>>,
  <<124, 82, 48, 48, 48, 49, 48, 65, 48, 69>>,
  <<124, 66, 48, 48, 48, 49, 48, 65, 48, 69>>,
  <<124, 67, 49, 69, 49, 56, 48, 77>>,
  <<124, 79, 49, 69, 49, 65, 49, 56, 48, 48, 51, 71, 49, 53>>,
  <<124, 111, 49, 71, 50, 66, 48, 77, 48, 71>>,
  <<124, 65, 49, 69, 49, 56, 48, 48, 51, 71, 49, 53>>,
  <<124, 86, 49, 69, 49, 56, 48, 48, 51, 71, 49, 53, 49, 81>>,
  <<124, 73, 49, 69, 49, 56, 48, 48, 51, 71, 49, 53>>,
  <<124, 105, 49, 69, 49, 56, 48, 48, 51, 71, 49, 53, 49, 81>>,
  <<124, 90, 48, 65, 48, 66, 48, 67, 48, 68, 48, 69, 48, 70, 48, 71, 48, 72, 49, 71>>,
  <<124, 80, 48, 51, 48, 49, 48, 49, 48, 53, 48, 57, 48, 57, 48, 53>>,
  <<124, 112, 48, 51, 48, 49, 48, 49, 48, 53, 48, 53, 48, 57, 48, 57>>,
  <<124, 108, 48, 51, 48, 49, 48, 49, 48, 53, 48, 53, 48, 57, 48, 57>>,
  <<124, 70, 50, 53, 48, 57, 48, 70>>,
  <<124, 61, 48, 49, 48, 48, 48, 48, 48, 49>>,
  <<124, 83, 48, 53, 48, 70>>,
  <<124, 115, 49, 49, 50, 50, 51, 51, 52, 52, 53, 53, 54, 54, 55, 55, 56, 56, 48, 70>>,
  <<124, 49, 77, 48, 48, 48, 48, 49, 49, 50, 50, 51, 51, 49, 49, 48, 48, 48, 48, 48, 104, 111, 115, 116, 32, 99, 111, 109, 109, 97, 110, 100, 94, 77>>,
  <<124, 49, 75>>,
  <<124, 49, 84, 48, 48, 49, 49, 48, 48, 49, 49, 48, 48>>,
  <<124, 49, 116, 49, 84, 104, 105, 115, 32, 105, 115, 32, 97, 32, 116, 101, 120, 116, 32, 108, 105, 110, 101, 32, 116, 111, 32, 98, 101, 32, 106, 117, 115, 116, 105, 102, 105, 101, 100>>,
  <<124, 49, 75>>,
  <<124, 49, 67, 48, 48, 49, 49, 50, 50, 51, 51, 48>>,
  <<124, 49, 80, 48, 48, 49, 49, 48, 49, 48>>,
  <<124, 49, 87, 48, 102, 105, 108, 101, 110, 97, 109, 101, 46, 105, 99, 110>>,
  <<124, 49, 73, 48, 48, 49, 49, 48, 49, 48, 49, 48, 98, 117, 116, 116, 111, 110, 46, 105, 99, 110>>,
  <<124, 49, 66, 48, 65, 48, 65, 48, 49, 48, 50, 55, 52, 48, 51, 48, 70, 48, 56, 48, 70, 48, 56, 48, 55, 48, 48, 48, 49, 48, 69, 48, 55, 48, 48, 48, 48, 48, 48>>,
  <<124, 49, 85, 48, 49, 48, 49, 48, 48, 48, 48, 51, 50, 48, 48, 105, 99, 111, 110, 102, 105, 108, 101, 60, 62, 76, 97, 98, 101, 108, 60, 62, 72, 111, 115, 116, 67, 109, 100, 94, 109>>,
  <<124, 49, 68, 48, 48, 55, 48, 48, 116, 101, 120, 116, 95, 118, 97, 114, 44, 54, 48, 58, 63, 113, 117, 101, 115, 116, 105, 111, 110, 63, 100, 101, 102, 97, 117, 108, 116, 32, 100, 97, 116, 97>>,
  <<124, 49, 27, 48, 48, 48, 48, 116, 104, 105, 115, 32, 105, 115, 32, 97, 32, 113, 117, 101, 114, 121, 32, 36, 67, 79, 77, 77, 65, 78, 68, 36, 94, 109>>,
  <<124, 49, 71, 48, 56, 48, 71, 49, 52, 48, 77, 48, 48, 48, 53>>,
  <<124, 49, 82, 48, 48, 48, 48, 48, 48, 48, 48, 116, 101, 115, 116, 102, 105, 108, 101, 46, 114, 105, 112>>,
  <<124, 57, 27, 48, 48, 48, 49, 48, 48, 48, 48, 73, 67, 79, 78, 70, 73, 76, 69, 46, 73, 67, 78, 60, 62>>
>>
ASSUME \A i \in 1..Len(Vectors) : RoundTrip(Vectors[i])
\* ---- the parameter widths of doc/ripscript/154/ripscript.txt ("Arguments:" lines), in table order; text / list commands: the
\* fixed part only.  RIP_WRITE_ICON res:1 and RIP_READ_SCENE res:8 are raw characters in the code, i.e. part of the text (<<>>).
DocWidths == <<
  <<2, 2, 2, 2, 1, 1>>, W2(4), <<>>, <<>>, <<>>, W2(2), <<>>, <<>>, W2(1), <<>>, W2(2), W2(1), W2(2), <<>>, W2(2), W2(4), W2(2), W2(4), W2(4), W2(4),
  W2(3), W2(6), W2(4), W2(5), W2(6), W2(5), W2(6), W2(9), <<2>>, <<2>>, <<2>>, W2(3), <<2, 4, 2>>, W2(2), W2(9), <<>>,
  <<2, 2, 2, 2, 2, 1, 1, 5>>, <<>>, W2(5), <<1>>, <<>>, <<2, 2, 2, 2, 1>>, <<2, 2, 2, 1>>, <<>>, <<2, 2, 2, 1, 2>>,
  W2(3) \o <<4>> \o W2(10) \o <<6>>, <<2, 2, 2, 2, 2, 1, 1>>, <<3, 2>>, <<1, 3>>, W2(6), <<>>, <<2, 4>>, <<1, 1, 2, 4>> >>
ASSUME Len(DocWidths) = NCmds /\ \A i \in 1..NCmds : Cmds[i].rw = DocWidths[i]                       \* what is printed follows the document
ASSUME \A i \in 1..NCmds : (Cmds[i].pw # DocWidths[i]) <=> (i = 46)                                  \* (!) what is read: RIP_BUTTON_STYLE res
ASSUME NCmds = 53 /\ \A i \in 1..NCmds : Look(Cmds[i].lvl, Cmds[i].ch) = i           \* letters are unique per level
ASSUME B36(2, 1295) = <<90, 90>> /\ B36(2, 0) = <<48, 48>> /\ B36(1, 37) = <<49>> /\ B36(4, 1679615) = <<90, 90, 90, 90>>
ASSUME Sat36(59652323, 19) = MaxI /\ Sat36(59652323, 18) = MaxI - 1 /\ Sat36(59652324, 0) = MaxI /\ Sat36(MaxI, 35) = MaxI
ASSUME B36(6, MaxI) = <<90, 73, 75, 48, 90, 74>>                                   \* (!) a saturated field prints as ZIK0ZJ
\* (!) lower-case digits are accepted and printed in upper case
ASSUME RunStr(InitSt, <<33, 124, 99, 48, 97, 124>>).exec = <<<<124, 99, 48, 65>>>>
\* (!) a polygon with 3 points is not complete after its 12 coordinate digits, it takes three more characters
Poly3 == <<33, 124, 80, 48, 51,  48, 49, 48, 49,  48, 53, 48, 57,  48, 57, 48, 53>>
ASSUME RunStr(InitSt, Poly3).st.tag = "ReadParams" /\ RunStr(InitSt, Poly3 \o <<48, 48>>).st.tag = "ReadParams"
       /\ RunStr(InitSt, Poly3 \o <<48, 48, 48>>).st.tag = "GotRipStart"
\* (!) RIP_BUTTON_STYLE is not complete after the 36 digits of the specification, it takes a 37th
ASSUME LET z == [i \in 1..36 |-> 48] IN RunStr(InitSt, <<33, 124, 49, 66>> \o z).st.tag = "ReadParams"
                                        /\ RunStr(InitSt, <<33, 124, 49, 66>> \o z \o <<48>>).st.tag = "GotRipStart"
\* (!) "\|" does not escape the bar: the command ends
ASSUME RunStr(InitSt, <<33, 124, 84, 97, 92, 124>>).exec = <<<<124, 84, 97>>>>
\* (!) a parameter error leaves the dead command behind: has_command stays true in state Default
ASSUME LET r == RunStr(InitSt, <<33, 124, 99, 46>>) IN r.st.tag = "Default" /\ r.st.hc /\ r.exec = <<>>
\* an all-zero text window suspends text, "!|*" resumes it
ASSUME LET r == RunStr(InitSt, <<33, 124, 119>> \o [i \in 1..10 |-> 48]) IN r.st.susp /\ RunStr(r.st, <<124, 42>>).st.susp = FALSE
\* CSI 1 ! disables RIPscrip, CSI 2 ! enables it again
ASSUME LET r == RunStr(InitSt, <<27, 91, 49, 33>>) IN ~r.st.rip /\ RunStr(r.st, <<33>>).st.tag = "Default" /\ RunStr(r.st, <<27, 91, 50, 33, 33>>).st.tag = "GotRipStart"
=============================================================================
