SPECIFICATION Spec
CONSTANT Export = TRUE
INVARIANT Emit
CHECK_DEADLOCK FALSE
