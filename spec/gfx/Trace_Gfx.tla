------------------------------- MODULE Trace_Gfx -------------------------------
(* C20: reset{emu}, ch{c, r, us}, pic{w, h, len, r}, crash{kind, msg}.           *)
(* Model layer: the set of RIP framing states the model allows is tracked; it    *)
(* must never become empty and text characters fed in state Default must be      *)
(* accepted (res ok) - the automaton itself is not observable through the API.   *)
EXTENDS Gfx, TraceLib
VARIABLES l, cs
vars == <<l, cs>>
Init == l = 1 /\ cs = [emu |-> "none", states |-> {<<"Default", 0>>}] /\ InitRegs
Next ==
  /\ l <= Len(Rec)
  /\ LET e == Rec[l] IN
     /\ Bump(3)
     /\ CASE e.ev = "reset" -> Bump(4) /\ cs' = [emu |-> e.emu, states |-> {<<"Default", 0>>}]
          [] e.ev = "ch" ->
               /\ Bump(5)
               /\ Check(Outcome(e.r), "C20", "Outcome", l, [emu |-> cs.emu, c |-> e.c, r |-> e.r])
               /\ Check(StepBounded(e.us), "C20", "StepTime", l, [emu |-> cs.emu, c |-> e.c, us |-> e.us])
               /\ cs' = IF cs.emu = "rip" THEN [cs EXCEPT !.states = UNION {RipNext(s, e.c) : s \in cs.states}] ELSE cs
               /\ Expect(cs.emu # "rip" \/ UNION {RipNext(s, e.c) : s \in cs.states} # {}, "rip-framing", l, [c |-> e.c])
          [] e.ev = "pic" ->
               /\ Bump(6)
               /\ Check(e.r = "ok", "C20", "PictureOutcome", l, [emu |-> cs.emu, r |-> e.r])
               /\ Check(e.r # "ok" \/ CanvasComplete(e.w, e.h, e.len), "C20", "CanvasComplete", l, [emu |-> cs.emu, w |-> e.w, h |-> e.h, len |-> e.len])
               /\ UNCHANGED cs
          [] e.ev = "crash" ->
               /\ Bump(7)
               /\ Check(e.kind # "abort", "C20", "Abort", l, [emu |-> e.emu, msg |-> e.msg])
               /\ Check(e.kind # "timeout", "C20", "Stall", l, [emu |-> e.emu, msg |-> e.msg])
               /\ UNCHANGED cs
          [] OTHER -> Viol("TOOL", "unknown-event", l, e.ev) /\ UNCHANGED cs
  /\ l' = l + 1
Spec == Init /\ [][Next]_vars
=============================================================================
