-------------------------------- MODULE Utf8 --------------------------------
(***************************************************************************)
(* Unicode scalar values and well-formed UTF-8 (Unicode Standard, table 3-7). *)
(* Used by C10: every cell the engine stores is a scalar value, every string  *)
(* it builds is well-formed UTF-8.                                            *)
(***************************************************************************)
EXTENDS Integers, Sequences
Scalar(c) == (c >= 0 /\ c <= 55295) \/ (c >= 57344 /\ c <= 1114111)
In(b, lo, hi) == b >= lo /\ b <= hi
\* length of the well-formed sequence starting at s[i], or 0 if none
SeqLen(s, i) ==
  LET n == Len(s)  b0 == s[i]
      B(k) == IF i + k <= n THEN s[i + k] ELSE -1
      T(k) == In(B(k), 128, 191) IN
  IF In(b0, 0, 127) THEN 1
  ELSE IF In(b0, 194, 223) /\ T(1) THEN 2
  ELSE IF b0 = 224 /\ In(B(1), 160, 191) /\ T(2) THEN 3
  ELSE IF (In(b0, 225, 236) \/ In(b0, 238, 239)) /\ T(1) /\ T(2) THEN 3
  ELSE IF b0 = 237 /\ In(B(1), 128, 159) /\ T(2) THEN 3
  ELSE IF b0 = 240 /\ In(B(1), 144, 191) /\ T(2) /\ T(3) THEN 4
  ELSE IF In(b0, 241, 243) /\ T(1) /\ T(2) /\ T(3) THEN 4
  ELSE IF b0 = 244 /\ In(B(1), 128, 143) /\ T(2) /\ T(3) THEN 4
  ELSE 0
RECURSIVE WellFormedFrom(_, _)
WellFormedFrom(s, i) == IF i > Len(s) THEN TRUE ELSE LET k == SeqLen(s, i) IN IF k = 0 THEN FALSE ELSE WellFormedFrom(s, i + k)
WellFormed(s) == WellFormedFrom(s, 1)
\* code point of the well-formed sequence of length k at s[i]
CodeAt(s, i, k) ==
  CASE k = 1 -> s[i]
    [] k = 2 -> (s[i] - 192) * 64 + (s[i + 1] - 128)
    [] k = 3 -> (s[i] - 224) * 4096 + (s[i + 1] - 128) * 64 + (s[i + 2] - 128)
    [] OTHER -> (s[i] - 240) * 262144 + (s[i + 1] - 128) * 4096 + (s[i + 2] - 128) * 64 + (s[i + 3] - 128)
RECURSIVE DecodeFrom(_, _)
DecodeFrom(s, i) == IF i > Len(s) THEN <<>> ELSE LET k == SeqLen(s, i) IN <<CodeAt(s, i, k)>> \o DecodeFrom(s, i + k)   \* only for WellFormed(s)
Encode(c) ==
  IF c < 128 THEN <<c>>
  ELSE IF c < 2048 THEN <<192 + (c \div 64), 128 + (c % 64)>>
  ELSE IF c < 65536 THEN <<224 + (c \div 4096), 128 + ((c \div 64) % 64), 128 + (c % 64)>>
  ELSE <<240 + (c \div 262144), 128 + ((c \div 4096) % 64), 128 + ((c \div 64) % 64), 128 + (c % 64)>>
=============================================================================
