------------------------------ MODULE TraceLib ------------------------------
(***************************************************************************)
(* Helpers shared by all trace-validation modules (Trace_*.tla).            *)
(*                                                                         *)
(* A trace is an ndjson file (one JSON object per specification action)     *)
(* written by the Rust harness while it drives the real icy_engine built    *)
(* from /repo.  The file name arrives in the environment variable TRACE.    *)
(*                                                                         *)
(* Two layers (DESIGN.md section 1):                                        *)
(*   - property layer: Check(...) - a failed predicate is printed as a      *)
(*     VIOL line and counted in TLC register 1; this decides the verdict;   *)
(*   - model layer: Expect(...) - a disagreement between the faithful       *)
(*     model and the recorded state is printed as a DRIFT line (first 25)   *)
(*     and counted in register 2; it never decides the verdict, the trace   *)
(*     module adopts the recorded state and continues.                      *)
(* Trace modules never get stuck: acceptance = whole file consumed (checked *)
(* by Post through the diameter of the linear state graph) and no VIOL.     *)
(***************************************************************************)
EXTENDS Naturals, Sequences, TLC, TLCExt, Json, IOUtils

Rec == ndJsonDeserialize(IOEnv.TRACE)

Bump(r) == TLCSet(r, TLCGet(r) + 1)
BumpBy(r, n) == TLCSet(r, TLCGet(r) + n)
InitRegs == \A r \in 1..16 : TLCSet(r, 0)

Viol(prop, pred, l, info) ==
  Bump(1) /\ PrintT(<<"VIOL", ToJson([prop |-> prop, pred |-> pred, l |-> l, info |-> info])>>)
Drift(what, l, info) ==
  Bump(2) /\ (IF TLCGet(2) <= 25 THEN PrintT(<<"DRIFT", ToJson([what |-> what, l |-> l, info |-> info])>>) ELSE TRUE)
Check(ok, prop, pred, l, info) == IF ok THEN TRUE ELSE Viol(prop, pred, l, info)
Expect(ok, what, l, info) == IF ok THEN TRUE ELSE Drift(what, l, info)

\* registers: 1 violations, 2 drifts, 3 steps, 4.. free per module
Post ==
  /\ PrintT(<<"REPORT", ToJson([consumed |-> TLCGet("stats").diameter - 1, total |-> Len(Rec),
                                 viol |-> TLCGet(1), drift |-> TLCGet(2), steps |-> TLCGet(3),
                                 r4 |-> TLCGet(4), r5 |-> TLCGet(5), r6 |-> TLCGet(6), r7 |-> TLCGet(7),
                                 r8 |-> TLCGet(8), r9 |-> TLCGet(9), r10 |-> TLCGet(10), r11 |-> TLCGet(11),
                                 r12 |-> TLCGet(12)])>>)
  /\ TLCGet("stats").diameter - 1 = Len(Rec)

Has(e, f) == f \in DOMAIN e
=============================================================================
