SPECIFICATION Spec
CONSTANTS K = 3
          MaxPolls = 3
          MaxClears = 0
          RectCfg = 1
          Export = TRUE
          Rect <- RectDef
INVARIANT Inv
INVARIANT Emit
CHECK_DEADLOCK FALSE
