--------------------------- MODULE MC_SixelDecoder ---------------------------
(* R1: every payload of up to MaxToks tokens over the sixel alphabet decodes   *)
(* (or is rejected) without an evaluation error, the decoded size is bounded   *)
(* by the payload (C03) and consistent with a declared raster size when the    *)
(* data fits.  Gen cfg exports the payloads for replay into Sixel::parse_from. *)
EXTENDS SixelDecoder, TLC, Json
CONSTANTS MaxToks, Export, BigAlphabet
VARIABLES toks
Alphabet == { <<63>>, <<126>>, <<64>>, <<45>>, <<36>>, <<33, 50>>, <<33, 51, 126>>, <<35, 49>>, <<35, 49, 59, 50, 59, 48, 59, 48, 59, 48>>,
              <<34, 49, 59, 49, 59, 50, 59, 54>>, <<34, 49, 59, 49, 59, 49, 59, 49>>, <<34, 49, 59, 49, 59, 51, 59, 49, 51>>, <<34, 49, 59, 49, 59, 55>>, <<48>>,
              <<33, 52, 48, 57, 54>>, <<33, 57, 57, 57, 57, 57, 57, 57>> }                 \* "!4096", "!9999999": the repeat applies to WHATEVER follows, '-' included
\* raster attributes with extreme sizes (" 1;1;Ph;Pv with Ph, Pv in {1, 4096, 2^24, 9999999}): a later header re-declares what an
\* earlier one set up - the "big" alphabet is explored by its own configurations (MC_SixelDecoder_big.cfg / Gen_SixelDecoder_big.cfg)
Dec4096 == <<52, 48, 57, 54>>
Dec2p24 == <<49, 54, 55, 55, 55, 50, 49, 54>>
Dec9999999 == <<57, 57, 57, 57, 57, 57, 57>>
RasterTok(a, b) == <<34, 49, 59, 49, 59>> \o a \o <<59>> \o b
Dims == {<<49>>, Dec4096, Dec2p24, Dec9999999}
AlphabetBig == { RasterTok(a, b) : a \in Dims, b \in Dims } \cup { <<126>>, <<45>>, <<36>>, <<33, 52, 48, 57, 54>>, <<35, 49>> }
Flat(ts) == FlattenSeq(ts)
Init == toks = <<>>
Next == Len(toks) < MaxToks /\ \E t \in (IF BigAlphabet THEN AlphabetBig ELSE Alphabet) : toks' = Append(toks, t)
Spec == Init /\ [][Next]_toks
Res == Decode(Flat(toks))
\* C03 on the design: no payload, whatever its repeat counts, decodes to more than MaxDim x MaxDim pixels
Bounded == Res.ok => (Res.w <= MaxDim /\ Res.h <= MaxDim)
\* a payload that is exactly a raster header "1;1;2;6 followed by two full-height columns decodes to the declared 2 x 6
DeclaredFits == toks = << <<34, 49, 59, 49, 59, 50, 59, 54>>, <<126>>, <<126>> >> => (Res.ok /\ Res.w = 2 /\ Res.h = 6)
Emit == (Export /\ toks # <<>>) => PrintT(<<"WITNESS", ToJson([payload |-> Flat(toks)])>>)
=============================================================================
