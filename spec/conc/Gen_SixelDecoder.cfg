SPECIFICATION Spec
CONSTANTS MaxToks = 4
          Export = TRUE
INVARIANT Bounded
INVARIANT Emit
CHECK_DEADLOCK FALSE
