SPECIFICATION Spec
CONSTANTS MaxToks = 4
          BigAlphabet = FALSE
          Export = TRUE
INVARIANT Bounded
INVARIANT Emit
CHECK_DEADLOCK FALSE
