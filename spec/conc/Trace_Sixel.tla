----------------------------- MODULE Trace_Sixel -----------------------------
(***************************************************************************)
(* C14 trace validation.                                                    *)
(*  sx events   : one sixel payload through Sixel::parse_from - property:    *)
(*                pixel data = width * height * 4; model: SixelDecoder.      *)
(*  queue events: reset{rects}, submit{i}, finish{i}, poll{ret,blocked},     *)
(*                clear - each with the observed queue length `pending` and  *)
(*                the images on the layer `shown` = <<ticket,x,y,w,h>>..     *)
(*                (ticket 0 = an image that matches no submitted image).     *)
(* Property layer = relations over the recorded history only (which poll     *)
(* delivers an image is NOT prescribed); model layer = SixelQueue.           *)
(***************************************************************************)
EXTENDS SixelDecoder, TraceLib, FiniteSets
VARIABLES l, g
vars == <<l, g>>
\* g: ground truth from the recorded actions + model queue
\*   rects, sub (submitted tickets in order), fin (finished), clr (cleared), del (delivered so far, from observations),
\*   pend / shown: model queue (SixelQueue semantics), dead: a poll blocked (rest of the case is not judged)
NoG == [rects |-> <<>>, sub |-> <<>>, fin |-> {}, clr |-> {}, del |-> {}, pend |-> <<>>, shown |-> <<>>, dead |-> FALSE]
Init == l = 1 /\ g = NoG /\ InitRegs

Rng(s) == {s[j] : j \in 1..Len(s)}
Cov(rs, a, b) == rs[a][1] <= rs[b][1] /\ rs[b][3] <= rs[a][3] /\ rs[a][2] <= rs[b][2] /\ rs[b][4] <= rs[a][4]
Tickets(sh) == [j \in 1..Len(sh) |-> sh[j][1]]
RECURSIVE Deliver(_, _, _, _)
Deliver(rs, p, s, fin) ==
  IF p = <<>> \/ Head(p) \notin fin THEN <<p, s>>
  ELSE LET n == Head(p) IN Deliver(rs, Tail(p), Append(SelectSeq(s, LAMBDA o : ~Cov(rs, n, o)), n), fin)

\* ---- property predicates over (ground truth after the action, observed ticket list t)
Live(gg) == {i \in Rng(gg.sub) : i \notin gg.clr}
Ascending(t) == \A a, b \in 1..Len(t) : a < b => t[a] < t[b]
Known(gg, t) == \A j \in 1..Len(t) : t[j] \in Live(gg)
OnlyFinished(gg, t) == \A j \in 1..Len(t) : t[j] \in gg.fin
\* arrival order: an image is on the screen only if every older live image has been delivered (or is shown) as well
InOrder(gg, t, del) == \A j \in 1..Len(t) : \A o \in Live(gg) : o < t[j] => (o \in del \/ o \in Rng(t))
\* shadowing: no shown image is fully covered by a newer shown one; a delivered image that is gone is covered by a newer delivered one
Shadow(gg, t, del) == /\ \A a, b \in Rng(t) : a < b => ~Cov(gg.rects, b, a)
                      /\ \A i \in (del \cap Live(gg)) : i \in Rng(t) \/ (\E n \in del \cap Live(gg) : n > i /\ Cov(gg.rects, n, i))
\* after a poll nothing deliverable is left behind: a live image whose own and all older live decodes finished is delivered
NothingLost(gg, del) == \A i \in Live(gg) : (\A o \in Live(gg) : o <= i => o \in gg.fin) => i \in del
NoDup(t) == Cardinality(Rng(t)) = Len(t)
NoReturn(gg, t, oldDel, oldT) == \A i \in Rng(t) : i \in oldDel => i \in Rng(oldT)     \* a removed image never reappears

\* delivered so far: seen on the screen at some point, or finished and covered by a newer image that was seen (an image may be
\* delivered and replaced within one poll, so it is never observed itself)
DelC(gg, t) == LET d0 == gg.del \cup Rng(t) IN
               d0 \cup {o \in Live(gg) : o \in gg.fin /\ \E n \in d0 : n > o /\ Cov(gg.rects, n, o)}
Judge(gg, e, oldT) ==
  LET t == Tickets(e.shown)  del == DelC(gg, t) IN
  /\ Check(Known(gg, t), "C14", "UnknownImage", l, [ev |-> e.ev, shown |-> t])
  /\ Check(NoDup(t) /\ NoReturn(gg, t, gg.del, oldT), "C14", "DeliveredTwice", l, [ev |-> e.ev, shown |-> t])
  /\ Check(Ascending(t) /\ InOrder(gg, t, del), "C14", "ArrivalOrder", l, [ev |-> e.ev, shown |-> t, fin |-> gg.fin])
  /\ Check(OnlyFinished(gg, t), "C14", "UnfinishedShown", l, [ev |-> e.ev, shown |-> t, fin |-> gg.fin])
  /\ Check(Shadow(gg, t, del), "C14", "ShadowRule", l, [ev |-> e.ev, shown |-> t, rect |-> gg.rects])
  /\ Check(e.ev # "poll" \/ NothingLost(gg, del), "C14", "ImageLost", l, [shown |-> t, fin |-> gg.fin, sub |-> gg.sub])

DecodeAgrees(m, e) ==
  Expect(IF m.ok THEN e.r = "ok" /\ e.w = m.w /\ e.h = m.h ELSE e.r = "err", "decode", l, [payload |-> e.payload, model |-> m, r |-> e.r, w |-> e.w, h |-> e.h])

Next ==
  /\ l <= Len(Rec)
  /\ LET e == Rec[l] IN
     /\ Bump(3)
     /\ CASE e.ev = "sx" ->
              /\ Bump(4)
              \* a decode that panics never delivers its picture: the background thread dies, the poll skips the failed join
              /\ Check(e.r # "panic", "C14", "DecodeLost", l, [site |-> IF Has(e, "site") THEN e.site ELSE "", n |-> Len(e.payload), tail |-> SubSeq(e.payload, IF Len(e.payload) > 12 THEN Len(e.payload) - 11 ELSE 1, Len(e.payload))])
              /\ Check(e.r # "ok" \/ Rectangular(e.w, e.h, e.len), "C14", "Rectangular", l, [w |-> e.w, h |-> e.h, len |-> e.len, payload |-> e.payload])
              \* "consistent with any declared raster size": once a raster attribute has declared the height, the picture has exactly the
              \* rows the design gives it (the declared number: data below it is clipped, missing rows are added) - wherever in the
              \* payload the attribute stands
              /\ LET m == Decode(e.payload) IN
                 Check(~(m.ok /\ m.hset /\ e.r = "ok") \/ e.h = m.h, "C14", "DeclaredHeight", l, [declared |-> m.h, h |-> e.h, w |-> e.w, n |-> Len(e.payload), head |-> SubSeq(e.payload, 1, IF Len(e.payload) > 24 THEN 24 ELSE Len(e.payload))])
              /\ DecodeAgrees(Decode(e.payload), e)
              /\ UNCHANGED g
          [] e.ev = "fileload" ->      \* a file with k sixel pictures, loaded with Buffer::from_bytes: imgs = <<ticket, w, h, len>> of the image layers
              /\ Bump(9)
              /\ Check(e.r = "ok", "C14", "FileLoads", l, [case |-> e.case, r |-> e.r])
              /\ Check(e.r # "ok" \/ (Len(e.imgs) = e.k /\ e.pending = 0), "C14", "FileImageLost", l, [case |-> e.case, k |-> e.k, got |-> Len(e.imgs), pending |-> e.pending])
              /\ Check(e.r # "ok" \/ \A i \in 1..Len(e.imgs) : Rectangular(e.imgs[i][2], e.imgs[i][3], e.imgs[i][4]), "C14", "Rectangular", l, [w |-> 0, h |-> 0, len |-> 0, payload |-> <<>>])
              /\ Check(e.r # "ok" \/ \A i, j \in 1..Len(e.imgs) : i < j => e.imgs[i][1] # e.imgs[j][1], "C14", "FileImageDuplicated", l, [case |-> e.case])
              /\ UNCHANGED g
          [] e.ev = "reset" -> Bump(5) /\ g' = [NoG EXCEPT !.rects = e.rects]
          [] g.dead -> UNCHANGED g
          [] e.ev = "submit" ->
              LET gg == [g EXCEPT !.sub = Append(@, e.i), !.pend = Append(@, e.i)] IN
              /\ Bump(6)
              /\ Check(e.arrived = 1, "TOOL", "decode-did-not-reach-gate", l, e.i)
              /\ Judge(gg, e, g.shown)
              /\ Expect(e.pending = Len(gg.pend) /\ Tickets(e.shown) = gg.shown, "submit", l, [pending |-> e.pending, model |-> gg.pend])
              /\ g' = [gg EXCEPT !.del = DelC(gg, Tickets(e.shown)), !.shown = Tickets(e.shown)]
          [] e.ev = "finish" ->
              LET gg == [g EXCEPT !.fin = @ \cup {e.i}] IN
              /\ Bump(7)
              /\ Judge(gg, e, g.shown)
              /\ Expect(e.pending = Len(gg.pend) /\ Tickets(e.shown) = gg.shown, "finish", l, [pending |-> e.pending])
              /\ g' = [gg EXCEPT !.del = DelC(gg, Tickets(e.shown)), !.shown = Tickets(e.shown)]
          [] e.ev = "poll" ->
              LET r == Deliver(g.rects, g.pend, g.shown, g.fin)
                  gg == [g EXCEPT !.pend = r[1], !.shown = r[2]]
                  expRet == IF g.pend # <<>> /\ r[1] = <<>> THEN "true" ELSE "false" IN
              /\ Bump(8)
              /\ Check(e.blocked = 0, "C14", "PollBlocks", l, [pending |-> e.pending, fin |-> g.fin])
              /\ Check(e.ret = "true" \/ e.ret = "false", "C14", "PollFails", l, [ret |-> e.ret])
              /\ (IF e.blocked = 0 THEN Judge(g, e, g.shown) ELSE TRUE)
              /\ Expect(e.pending = Len(gg.pend) /\ Tickets(e.shown) = gg.shown /\ e.ret = expRet, "poll", l, [pending |-> e.pending, shown |-> Tickets(e.shown), model |-> gg.shown, ret |-> e.ret, expRet |-> expRet])
              /\ g' = [gg EXCEPT !.del = DelC(g, Tickets(e.shown)), !.shown = Tickets(e.shown), !.dead = (e.blocked = 1),
                                 !.pend = IF e.pending = Len(gg.pend) THEN gg.pend ELSE SubSeq(g.sub, Len(g.sub) - e.pending + 1, Len(g.sub))]
          [] e.ev = "clear" ->
              LET gg == [g EXCEPT !.clr = @ \cup Rng(g.sub), !.pend = <<>>, !.shown = <<>>] IN
              /\ Bump(9)
              /\ Judge(gg, e, <<>>)
              /\ Expect(e.pending = 0 /\ e.shown = <<>>, "clear", l, [pending |-> e.pending])
              /\ g' = gg
          [] OTHER -> Viol("TOOL", "unknown-event", l, e.ev) /\ UNCHANGED g
  /\ l' = l + 1
Spec == Init /\ [][Next]_vars
=============================================================================
