---------------------------- MODULE Gen_SixelGeo ----------------------------
(* Geometry generator for C14 (shadow rule): EVERY ordered pair of rectangles of  *)
(* a 3 x 3 cell grid (36 rectangles, 1296 pairs) and every ordered triple of a    *)
(* 2 x 2 grid (9 rectangles, 729 triples), each with the plain schedule "submit   *)
(* all, finish all in arrival order, poll".  The driver takes the rectangles from *)
(* the witness; Trace_Sixel computes the expected list from the recorded          *)
(* rectangles with SixelQueue.Covers.  The design-level statement checked here:   *)
(* Covers is reflexive, transitive and antisymmetric on rectangles, and is NOT    *)
(* the lexicographic order on corners (the two differ on these grids).            *)
EXTENDS Naturals, Sequences, FiniteSets, TLC, Json
Rects(n) == { <<x0, y0, x1, y1>> : x0 \in 0..(n - 1), y0 \in 0..(n - 1), x1 \in 0..(n - 1), y1 \in 0..(n - 1) } 
RectsOk(n) == { r \in Rects(n) : r[1] <= r[3] /\ r[2] <= r[4] }
Cov(a, b) == a[1] <= b[1] /\ b[3] <= a[3] /\ a[2] <= b[2] /\ b[4] <= a[4]
\* lexicographic (y first, then x) comparison of corners - what a derived ordering on positions would give
LexLe(p, q) == p[2] < q[2] \/ (p[2] = q[2] /\ p[1] <= q[1])
LexCov(a, b) == LexLe(<<a[1], a[2]>>, <<b[1], b[2]>>) /\ LexLe(<<b[3], b[4]>>, <<a[3], a[4]>>)
Hist(k) == [i \in 1..k |-> <<"submit", i>>] \o [i \in 1..k |-> <<"finish", i>>] \o << <<"poll", 0>> >>
Pairs == { <<a, b>> : a \in RectsOk(3), b \in RectsOk(3) }
Triples == { <<a, b, c>> : a \in RectsOk(2), b \in RectsOk(2), c \in RectsOk(2) }
VARIABLE i
Init == i = 0
Next == UNCHANGED i
Spec == Init /\ [][Next]_i
PartialOrder == /\ \A a \in RectsOk(3) : Cov(a, a)
                /\ \A a, b \in RectsOk(3) : (Cov(a, b) /\ Cov(b, a)) => a = b
                /\ \A a, b, c \in RectsOk(2) : (Cov(a, b) /\ Cov(b, c)) => Cov(a, c)
LexDiffers == \E a, b \in RectsOk(3) : LexCov(a, b) /\ ~Cov(a, b)
\* pictures whose pixel size is not a whole number of 8 x 16 cells, at the same and at neighbouring cells: covering is a
\* relation on PIXEL rectangles, not on the cells a picture touches
Origins == { <<0, 0>>, <<1, 0>>, <<0, 1>> }
PxSizes == { <<12, 12>>, <<14, 6>>, <<5, 6>>, <<3, 12>>, <<8, 16>>, <<16, 16>>, <<9, 17>> }
SubCell == { <<o, z>> : o \in Origins, z \in PxSizes }
Emit == /\ \A p \in Pairs : PrintT(<<"WITNESS", ToJson([rect |-> 0, k |-> 2, rects |-> p, hist |-> Hist(2)])>>)
        /\ \A a \in SubCell, b \in SubCell :
              PrintT(<<"WITNESS", ToJson([rect |-> 0, k |-> 2, rects |-> << <<a[1][1], a[1][2], a[1][1], a[1][2]>>, <<b[1][1], b[1][2], b[1][1], b[1][2]>> >>,
                                           px |-> <<a[2], b[2]>>, hist |-> Hist(2)])>>)
        /\ \A t \in Triples : PrintT(<<"WITNESS", ToJson([rect |-> 0, k |-> 3, rects |-> t, hist |-> Hist(3)])>>)
=============================================================================
