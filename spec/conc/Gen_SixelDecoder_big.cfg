SPECIFICATION Spec
CONSTANTS MaxToks = 3
          BigAlphabet = TRUE
          Export = TRUE
INVARIANT Bounded
INVARIANT Emit
CHECK_DEADLOCK FALSE
