----------------------------- MODULE SixelDecoder -----------------------------
(***************************************************************************)
(* Character machine of the sixel payload decoder (src/sixel_mod.rs),        *)
(* abstracting pixel colours to row lengths (in pixels).  C14, first half:   *)
(* the decoded picture is a complete rectangle.                              *)
(* State d: mode in {"read","color","size","repeat"}, nums, cursor (cx, cy), *)
(* rows (sequence of row lengths in pixels), hset (height declared),         *)
(* err (decode failed).                                                      *)
(***************************************************************************)
EXTENDS Integers, Sequences, SequencesExt
MaxDim == 4096
MaxI == 2147483647
Max2(a, b) == IF a > b THEN a ELSE b
Min2(a, b) == IF a < b THEN a ELSE b
Clamp(v, lo, hi) == IF v < lo THEN lo ELSE IF v > hi THEN hi ELSE v
IsDigit(c) == c >= 48 /\ c <= 57
ParseNext(x, c) == LET t == IF x > 214748364 THEN MaxI ELSE x * 10
                       u == IF t > MaxI - c THEN MaxI ELSE t + c IN u - 48
PushDigit(nums, c) == IF nums = <<>> THEN <<ParseNext(0, c)>> ELSE [nums EXCEPT ![Len(nums)] = ParseNext(@, c)]
Repeat(v, n) == [i \in 1..Max2(n, 0) |-> v] \o <<>>        \* \o <<>> forces TLC to materialise the lazy function as a tuple
ResizeSeq(s, n, v) == IF Len(s) >= n THEN SubSeq(s, 1, n) ELSE s \o Repeat(v, n - Len(s))

InitD == [mode |-> "read", nums |-> <<>>, cx |-> 0, cy |-> 0, rows |-> <<>>, hset |-> FALSE, err |-> FALSE]
Width(d) == IF d.rows = <<>> THEN 0 ELSE d.rows[1]
Bit(mask, i) == (mask \div (2 ^ i)) % 2 = 1

\* translate_sixel_to_pixel, n times in a row (n = 1 for a plain data character).  Pixels outside of MaxDim x MaxDim are
\* dropped: a cursor moved there (repeated '-', long rows) only advances.
TranslateN(d, c, n) ==
  IF c < 63 THEN [d EXCEPT !.err = TRUE]
  ELSE LET mask == c - 63
           y0 == d.cy * 6
       IN IF d.cx >= MaxDim \/ y0 >= MaxDim THEN [d EXCEPT !.cx = d.cx + n]
          ELSE LET last0 == Min2(y0 + 6, MaxDim)
                   last == IF d.hset /\ last0 > Len(d.rows) THEN Len(d.rows) ELSE last0
                   r1 == IF Len(d.rows) < last THEN d.rows \o Repeat(Width(d), last - Len(d.rows)) ELSE d.rows
                   xe == Min2(d.cx + n, MaxDim)
                   r2 == [j \in 1..Len(r1) |-> IF j - 1 >= y0 /\ j - 1 < last /\ j - 1 - y0 <= 5 /\ Bit(mask, j - 1 - y0) THEN Max2(r1[j], xe) ELSE r1[j]] \o <<>>
               IN [d EXCEPT !.rows = r2, !.cx = d.cx + n]
Translate(d, c) == TranslateN(d, c, 1)
\* parse_sixel_data
Data(d, c) ==
  CASE c = 35 -> [d EXCEPT !.nums = <<>>, !.mode = "color"]
    [] c = 33 -> [d EXCEPT !.nums = <<>>, !.mode = "repeat"]
    [] c = 45 -> [d EXCEPT !.cx = 0, !.cy = d.cy + 1]
    [] c = 36 -> [d EXCEPT !.cx = 0]
    [] c = 34 -> [d EXCEPT !.nums = <<>>, !.mode = "size"]
    [] OTHER -> IF c > 127 THEN d ELSE Translate(d, c)
\* n-fold parse_sixel_data(c) ('!Pn' repeat) in closed form: a data character advances the cursor n columns and extends the
\* touched rows to the last column; '-' moves down n rows; the state-switching characters are idempotent
Times(d, c, n) ==
  IF n <= 0 THEN d
  ELSE IF c = 45 THEN [d EXCEPT !.cx = 0, !.cy = d.cy + n]
  ELSE IF c \in {35, 33, 36, 34} \/ c > 127 THEN Data(d, c)
  ELSE IF c < 63 THEN [d EXCEPT !.err = TRUE]
  ELSE TranslateN(d, c, n)
\* parse_char
Char(d, c) ==
  IF d.err THEN d
  ELSE CASE d.mode = "read" -> Data(d, c)
         [] d.mode = "color" ->
              IF IsDigit(c) THEN [d EXCEPT !.nums = PushDigit(d.nums, c)]
              ELSE IF c = 59 THEN [d EXCEPT !.nums = Append(d.nums, 0)]
              ELSE IF Len(d.nums) > 1 /\ (Len(d.nums) # 5 \/ d.nums[2] \notin {1, 2}) THEN [d EXCEPT !.err = TRUE]
              ELSE Data(d, c)                                        \* (!) the state stays "color" unless c switches it
         [] d.mode = "size" ->
              IF IsDigit(c) THEN [d EXCEPT !.nums = PushDigit(d.nums, c)]
              ELSE IF c = 59 THEN [d EXCEPT !.nums = Append(d.nums, 0)]
              ELSE IF Len(d.nums) < 2 \/ Len(d.nums) > 4 THEN [d EXCEPT !.err = TRUE]
              ELSE LET d1 == IF Len(d.nums) = 3 THEN [d EXCEPT !.rows = ResizeSeq(d.rows, Clamp(d.nums[3], 0, MaxDim), 0), !.hset = TRUE]
                             ELSE IF Len(d.nums) = 4 THEN [d EXCEPT !.rows = ResizeSeq(d.rows, Clamp(d.nums[4], 0, MaxDim), Clamp(d.nums[3], 0, MaxDim)), !.hset = TRUE]
                             ELSE d
                   IN Data([d1 EXCEPT !.mode = "read"], c)
         [] OTHER ->     \* repeat
              IF IsDigit(c) THEN [d EXCEPT !.nums = PushDigit(d.nums, c)]
              ELSE IF d.nums = <<>> THEN [d EXCEPT !.err = TRUE]
              ELSE [Times(d, c, Min2(d.nums[1], MaxDim)) EXCEPT !.mode = "read"]
Run(d, s) == FoldLeft(Char, d, s)
MaxOf(s) == FoldLeft(Max2, 0, s)
\* SixelParser::parse_from: feed the payload, flush with '#', pad all rows to the longest
Decode(payload) ==
  LET d == Char(Run(InitD, payload), 35) IN
  IF d.err THEN [ok |-> FALSE, w |-> 0, h |-> 0, hset |-> FALSE]
  ELSE [ok |-> TRUE, w |-> MaxOf(d.rows), h |-> Len(d.rows), hset |-> d.hset]      \* hset: a raster attribute declared the height
\* the property on recorded values
Rectangular(w, h, len) == len = w * h * 4
=============================================================================
