SPECIFICATION Spec
CONSTANTS K = 4
          MaxPolls = 2
          MaxClears = 0
          RectCfg = 5
          Export = TRUE
          Rect <- RectDef
INVARIANT Inv
INVARIANT Emit
CHECK_DEADLOCK FALSE
