SPECIFICATION Spec
CONSTANTS MaxToks = 3
          BigAlphabet = TRUE
          Export = FALSE
INVARIANT Bounded
CHECK_DEADLOCK FALSE
