------------------------------ MODULE SixelQueue ------------------------------
(***************************************************************************)
(* Abstract model of the sixel pipeline of a terminal buffer (C14):         *)
(*   - execute_dcs spawns one background decode per sixel DCS and appends    *)
(*     its JoinHandle to Buffer.sixel_threads (a FIFO)           -> Submit   *)
(*   - a decode finishes at a time of its own choosing            -> Finish  *)
(*   - the UI thread calls Buffer::update_sixel_threads           -> Poll    *)
(*   - form feed / clear screen drop the queue (stop_sixel_threads)-> Clear  *)
(* Tickets are arrival indices 1..K.  Submit, Finish, Poll and Clear are     *)
(* separate, independently enabled actions, so TLC explores every race       *)
(* between completion and polling.                                          *)
(***************************************************************************)
EXTENDS Naturals, Sequences, FiniteSets
CONSTANTS K,            \* number of images submitted in one behaviour
          Rect          \* Rect[i] = <<x0, y0, x1, y1>> screen rectangle of image i (inclusive corners)
\* state record: next ticket, pending FIFO, finished set, shown sequence, delivered-ever set
Covers(a, b) == /\ Rect[a][1] <= Rect[b][1] /\ Rect[b][3] <= Rect[a][3]
                /\ Rect[a][2] <= Rect[b][2] /\ Rect[b][4] <= Rect[a][4]

InitQ == [next |-> 1, pending |-> <<>>, finished |-> {}, shown |-> <<>>, cleared |-> {}]
SubmitQ(q) == [q EXCEPT !.pending = Append(@, q.next), !.next = @ + 1]
FinishQ(q, i) == [q EXCEPT !.finished = @ \cup {i}]
\* deliver the maximal finished prefix of the FIFO, oldest first; a newer image removes the shown images it covers
RECURSIVE Deliver(_, _, _)
Deliver(p, s, fin) ==
  IF p = <<>> \/ Head(p) \notin fin THEN <<p, s>>
  ELSE LET n == Head(p) IN Deliver(Tail(p), Append(SelectSeq(s, LAMBDA o : ~Covers(n, o)), n), fin)
PollQ(q) == LET r == Deliver(q.pending, q.shown, q.finished) IN
            [st |-> [q EXCEPT !.pending = r[1], !.shown = r[2]],
             ret |-> (q.pending # <<>> /\ r[1] = <<>>)]        \* Ok(true) only when the queue was drained (!): stops with Ok(false) at an unfinished head even after delivering
\* stop_sixel_threads (form feed): the queue is dropped (decodes are abandoned), the layer's images are cleared with the layer
ClearQ(q) == [q EXCEPT !.pending = <<>>, !.shown = <<>>, !.cleared = @ \cup {q.pending[j] : j \in 1..Len(q.pending)} \cup {q.shown[j] : j \in 1..Len(q.shown)}]

Range(s) == {s[j] : j \in 1..Len(s)}
\* -------- properties (C14, second half), over a queue state q --------
ArrivalOrder(q) == \A a, b \in 1..Len(q.shown) : a < b => q.shown[a] < q.shown[b]
NoDup(q) == Cardinality(Range(q.shown)) = Len(q.shown)
\* nothing is lost: a submitted ticket is pending, or shown, or was covered by a newer delivered image, or was cleared
NoLoss(q) == \A i \in 1..(q.next - 1) :
               \/ i \in Range(q.pending) \/ i \in Range(q.shown) \/ i \in q.cleared
               \/ (\E n \in (i + 1)..(q.next - 1) : Covers(n, i) /\ n \notin Range(q.pending))
ShadowRule(q) == \A a, b \in Range(q.shown) : a < b => ~Covers(b, a)
FifoPrefix(q) == \A i \in Range(q.pending) : \A j \in Range(q.shown) : j < i      \* never delivers past an unfinished older image
OnlyFinished(q) == Range(q.shown) \subseteq q.finished
QueueOk(q) == ArrivalOrder(q) /\ NoDup(q) /\ NoLoss(q) /\ ShadowRule(q) /\ FifoPrefix(q) /\ OnlyFinished(q)
=============================================================================
