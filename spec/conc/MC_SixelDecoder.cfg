SPECIFICATION Spec
CONSTANTS MaxToks = 5
          BigAlphabet = FALSE
          Export = FALSE
INVARIANT Bounded
INVARIANT DeclaredFits
CHECK_DEADLOCK FALSE
