SPECIFICATION Spec
CONSTANTS MaxToks = 5
          Export = FALSE
INVARIANT Bounded
INVARIANT DeclaredFits
CHECK_DEADLOCK FALSE
