SPECIFICATION Spec
CONSTANTS K = 2
          MaxPolls = 2
          MaxClears = 1
          RectCfg = 1
          Export = TRUE
          Rect <- RectDef
INVARIANT Inv
INVARIANT Emit
CHECK_DEADLOCK FALSE
