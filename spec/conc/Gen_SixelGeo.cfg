SPECIFICATION Spec
INVARIANT PartialOrder
INVARIANT LexDiffers
INVARIANT Emit
CHECK_DEADLOCK FALSE
