---------------------------- MODULE MC_SixelQueue ----------------------------
(* R1: all interleavings of Submit / Finish(i) / Poll / Clear for K images;   *)
(* R2 (Gen cfg): every maximal behaviour is exported as a schedule.            *)
EXTENDS SixelQueue, TLC, Json
CONSTANTS MaxPolls, MaxClears, RectCfg, Export
VARIABLES q, polls, clears, hist
vars == <<q, polls, clears, hist>>
\* rectangle configurations in character cells (x0, y0, x1, y1): disjoint / nested / chain / redraw-in-place (5, 6) / partial overlap
RectDef == CASE RectCfg = 1 -> << <<0,0,1,1>>, <<3,0,4,1>>, <<6,0,7,1>>, <<9,0,10,1>> >>
             [] RectCfg = 2 -> << <<1,1,2,2>>, <<0,0,4,4>>, <<1,1,2,2>>, <<0,0,5,5>> >>
             [] RectCfg = 3 -> << <<0,0,5,5>>, <<1,1,2,2>>, <<0,0,5,5>>, <<3,3,4,4>> >>
             [] RectCfg = 5 -> << <<0,0,1,1>>, <<3,0,4,1>>, <<6,0,7,1>>, <<0,0,1,1>> >>      \* three side by side, the fourth redraws the FIRST in place
             [] RectCfg = 6 -> << <<0,0,1,1>>, <<3,0,4,1>>, <<6,0,7,1>>, <<3,0,4,1>> >>      \* ... the fourth redraws the middle one
             [] OTHER       -> << <<0,0,2,2>>, <<1,1,3,3>>, <<0,0,3,3>>, <<2,2,2,2>> >>
Init == q = InitQ /\ polls = 0 /\ clears = 0 /\ hist = <<>>
Submit == q.next <= K /\ q' = SubmitQ(q) /\ hist' = Append(hist, <<"submit", q.next>>) /\ UNCHANGED <<polls, clears>>
Finish(i) == i < q.next /\ i \notin q.finished /\ q' = FinishQ(q, i) /\ hist' = Append(hist, <<"finish", i>>) /\ UNCHANGED <<polls, clears>>
Poll == polls < MaxPolls /\ q' = PollQ(q).st /\ polls' = polls + 1 /\ hist' = Append(hist, <<"poll", 0>>) /\ UNCHANGED clears
Clear == clears < MaxClears /\ q.next > 1 /\ q' = ClearQ(q) /\ clears' = clears + 1 /\ hist' = Append(hist, <<"clear", 0>>) /\ UNCHANGED polls
Next == Submit \/ (\E i \in 1..K : Finish(i)) \/ Poll \/ Clear
Spec == Init /\ [][Next]_vars
Inv == QueueOk(q)
\* polling never waits: Poll is enabled in every state (its only guard is the model's own bound)
PollNeverWaits == polls < MaxPolls => ENABLED Poll
View == <<q, polls, clears>>
\* a behaviour is maximal when nothing but polls could follow; export it once
Done == q.next > K /\ q.finished = 1..K /\ q.pending = <<>>
Emit == (Export /\ Done) => PrintT(<<"WITNESS", ToJson([rect |-> RectCfg, k |-> K, hist |-> hist])>>)
=============================================================================
