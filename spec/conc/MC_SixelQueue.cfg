SPECIFICATION Spec
CONSTANTS K = 4
          MaxPolls = 5
          MaxClears = 1
          RectCfg = 2
          Export = FALSE
          Rect <- RectDef
INVARIANT Inv
INVARIANT PollNeverWaits
VIEW View
CHECK_DEADLOCK FALSE
