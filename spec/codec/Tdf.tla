-------------------------------- MODULE Tdf --------------------------------
(***************************************************************************)
(* TheDraw font files (.TDF), written from the format description          *)
(* (DESIGN.md Appendix G, TheDraw's documentation of its font files):      *)
(*                                                                         *)
(*   file   = 13h "TheDraw FONTS file" 1Ah  font*  [00h]                   *)
(*   font   = 55h AAh 00h FFh                 indicator                    *)
(*            namelen u8 (<= NameLen)         length of the name           *)
(*            name[NameLen]                   padded, may be NUL-terminated *)
(*            4 bytes                         reserved                     *)
(*            type u8                         0 outline, 1 block, 2 colour *)
(*            spacing u8                      letter spacing (<= 40)       *)
(*            blocksize u16                   size of the glyph block      *)
(*            TableSize x u16                 offset of the glyph of '!'+k *)
(*                                            in the block, FFFFh = none   *)
(*            block[blocksize]                glyph records                *)
(*   glyph  = width u8, height u8, data ..., 00h                           *)
(*            outline / block fonts: one byte per cell, 0Dh = next row;    *)
(*            colour fonts: (character, attribute) pairs - the attribute   *)
(*            byte may have ANY value, also 00h and 0Dh - and a single 0Dh *)
(*            (without attribute) = next row.                              *)
(*                                                                         *)
(* TableSize = 94 and NameLen = 12 in real files; MC_Tdf scales them down. *)
(* A font value is [name, type, sp, glyphs] with glyphs a sequence of      *)
(* TableSize entries, <<>> (undefined) or <<width, height, data>>.         *)
(* The decoder is total: ok \in BOOLEAN on every byte sequence.            *)
(***************************************************************************)
EXTENDS Integers, Sequences, SequencesExt
CONSTANTS TableSize, NameLen

TdfId == <<84, 104, 101, 68, 114, 97, 119, 32, 70, 79, 78, 84, 83, 32, 102, 105, 108, 101>>   \* "TheDraw FONTS file"
FileHeader == <<Len(TdfId) + 1>> \o TdfId \o <<26>>
Indicator == <<85, 170, 0, 255>>
FontHeaderLen == 4 + 1 + NameLen + 4 + 1 + 1 + 2 + 2 * TableSize
MaxSpacing == 40
W16(b, o) == b[o + 1] + 256 * b[o + 2]        \* little-endian u16 at 0-based offset o

\* ------------------------------------------------------------------------------------------------ glyph record
\* The data of a glyph of w x h cells is at most h rows of w cells (1 byte each, 2 in colour fonts) and h row ends.
GlyphBound(w, h, type) == (IF type = 2 THEN 2 * w + 1 ELSE w + 1) * h + 1
\* scan state: st = "ch" (a character byte is expected), "attr" (the attribute byte of a colour cell), "done"
ScanStep(blk, type, st, p) ==
  IF st.s = "done" THEN st
  ELSE IF st.s = "attr" THEN [st EXCEPT !.s = "ch"]
  ELSE IF blk[p] = 0 THEN [s |-> "done", end |-> p]
  ELSE IF type = 2 /\ blk[p] # 13 THEN [st EXCEPT !.s = "attr"]
  ELSE st
\* the glyph record at 0-based offset `off` of the block
GlyphAt(blk, off, type) ==
  IF off + 2 > Len(blk) THEN [ok |-> FALSE, g |-> <<>>]
  ELSE LET w == blk[off + 1]   h == blk[off + 2]
           last == IF off + 2 + GlyphBound(w, h, type) < Len(blk) THEN off + 2 + GlyphBound(w, h, type) ELSE Len(blk)
           st == FoldLeft(LAMBDA t, p : ScanStep(blk, type, t, p), [s |-> "ch", end |-> 0], [k \in 1..(last - off - 2) |-> off + 2 + k]) IN
       IF st.s # "done" THEN [ok |-> FALSE, g |-> <<>>]       \* no terminator inside the block / the declared size
       ELSE [ok |-> TRUE, g |-> <<w, h, SubSeq(blk, off + 3, st.end - 1)>>]

\* ------------------------------------------------------------------------------------------------ one font
CutAtNul(s) == SubSeq(s, 1, FoldLeft(LAMBDA m, i : IF s[i] = 0 /\ i <= m THEN i - 1 ELSE m, Len(s), [i \in 1..Len(s) |-> i]))
\* the font record at 0-based offset o of the file b: [ok, font, next]
FontAt(b, o) ==
  IF o + FontHeaderLen > Len(b) \/ SubSeq(b, o + 1, o + 4) # Indicator THEN [ok |-> FALSE, why |-> "font-header"]
  ELSE LET nl == b[o + 5]
           type == b[o + 5 + NameLen + 5]
           sp == b[o + 5 + NameLen + 6]
           bs == W16(b, o + 4 + 1 + NameLen + 4 + 2)
           tab == o + 4 + 1 + NameLen + 4 + 4               \* offset of the glyph table
           blk0 == o + FontHeaderLen IN                    \* offset of the glyph block
       IF nl > NameLen THEN [ok |-> FALSE, why |-> "name-length"]
       ELSE IF type > 2 THEN [ok |-> FALSE, why |-> "font-type"]
       ELSE IF sp > MaxSpacing THEN [ok |-> FALSE, why |-> "spacing"]
       ELSE IF blk0 + bs > Len(b) THEN [ok |-> FALSE, why |-> "block-size"]
       ELSE LET blk == SubSeq(b, blk0 + 1, blk0 + bs)
                entry(k) == W16(b, tab + 2 * (k - 1))
                gl == [k \in 1..TableSize |-> IF entry(k) = 65535 THEN [ok |-> TRUE, g |-> <<>>]
                                               ELSE IF entry(k) >= bs THEN [ok |-> FALSE, g |-> <<>>] ELSE GlyphAt(blk, entry(k), type)] IN
            IF \E k \in 1..TableSize : ~gl[k].ok THEN [ok |-> FALSE, why |-> "glyph"]
            ELSE [ok |-> TRUE, why |-> "", next |-> blk0 + bs,
                  font |-> [name |-> CutAtNul(SubSeq(b, o + 6, o + 5 + nl)), type |-> type, sp |-> sp, glyphs |-> [k \in 1..TableSize |-> gl[k].g]]]

\* ------------------------------------------------------------------------------------------------ the file
FileStep(b, st) ==
  IF st.done THEN st
  ELSE IF st.o >= Len(b) \/ b[st.o + 1] = 0 THEN [st EXCEPT !.done = TRUE]         \* end of file or bundle terminator
  ELSE LET f == FontAt(b, st.o) IN
       IF ~f.ok THEN [st EXCEPT !.ok = FALSE, !.why = f.why, !.done = TRUE] ELSE [st EXCEPT !.o = f.next, !.fonts = Append(@, f.font)]
TdfDecode(b) ==
  IF Len(b) < Len(FileHeader) + FontHeaderLen \/ SubSeq(b, 1, Len(FileHeader)) # FileHeader THEN [ok |-> FALSE, why |-> "file-header", fonts |-> <<>>]
  ELSE LET st == FoldLeft(LAMBDA t, i : FileStep(b, t), [ok |-> TRUE, why |-> "", done |-> FALSE, o |-> Len(FileHeader), fonts |-> <<>>],
                          [i \in 1..(Len(b) \div FontHeaderLen + 1) |-> i]) IN
       [ok |-> st.ok, why |-> st.why, fonts |-> IF st.ok THEN st.fonts ELSE <<>>]

\* ------------------------------------------------------------------------------------------------ writer's side
L16(v) == <<v % 256, v \div 256>>
GlyphBytes(g) == <<g[1], g[2]>> \o g[3] \o <<0>>
Defined(f) == {k \in 1..TableSize : f.glyphs[k] # <<>>}
\* offset of glyph k in the block when the defined glyphs are stored in table order
OffsetOf(f, k) == FoldLeft(LAMBDA acc, j : IF j < k /\ f.glyphs[j] # <<>> THEN acc + Len(f.glyphs[j][3]) + 3 ELSE acc, 0, [j \in 1..TableSize |-> j])
BlockSize(f) == OffsetOf(f, TableSize + 1)
FontBytes(f) ==
  Indicator \o <<NameLen>> \o f.name \o [i \in 1..(NameLen - Len(f.name)) |-> 0] \o <<0, 0, 0, 0, f.type, f.sp>> \o L16(BlockSize(f))
  \o FoldLeft(LAMBDA acc, k : acc \o (IF f.glyphs[k] = <<>> THEN <<255, 255>> ELSE L16(OffsetOf(f, k))), <<>>, [k \in 1..TableSize |-> k])
  \o FoldLeft(LAMBDA acc, k : IF f.glyphs[k] = <<>> THEN acc ELSE acc \o GlyphBytes(f.glyphs[k]), <<>>, [k \in 1..TableSize |-> k])
TdfEncodeSingle(f) == FileHeader \o FontBytes(f)                                             \* one font, no terminator
TdfEncodeBundle(fs) == FileHeader \o FoldLeft(LAMBDA acc, f : acc \o FontBytes(f), <<>>, fs) \o <<0>>

\* what a font file can carry at all: the block size and every offset are 16-bit
Representable(f) == BlockSize(f) <= 65535 /\ Len(f.name) <= NameLen /\ f.sp <= MaxSpacing

\* ------------------------------------------------------------------------------------------------ the property (C17, TheDraw half)
\* same names, types, letter spacing and glyph data
SameTdfFont(a, c) == a.name = c.name /\ a.type = c.type /\ a.sp = c.sp /\ a.glyphs = c.glyphs
TdfDiff(a, c) == {f \in {"name", "type", "sp", "glyphs"} : a[f] # c[f]}
=============================================================================
