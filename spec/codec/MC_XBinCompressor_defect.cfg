SPECIFICATION Spec
CONSTANTS RunBase = 4
          Chars = {65}
          Attrs = {1}
          Pages = {0, 1}
          W = 3
INVARIANT UnfixedSound
CHECK_DEADLOCK FALSE
