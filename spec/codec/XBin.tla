-------------------------------- MODULE XBin --------------------------------
(***************************************************************************)
(* The XBin file format, written from doc/FileFormats/x_bin.htm (the XBin  *)
(* specification by Tasmaniac/ACiD) - NOT from src/formats/xbinary.rs.     *)
(*                                                                         *)
(*   file   = header(11) [palette(48)] [font(256*fh [*2])] image [SAUCE]   *)
(*   header = "XBIN" 1A width:u16 height:u16 fontsize:u8 flags:u8          *)
(*   flags  = bit0 palette, bit1 font, bit2 compress, bit3 non-blink,      *)
(*            bit4 512 characters                                          *)
(*   image  = width*height pairs (character, attribute)       (raw), or    *)
(*            per ROW a sequence of runs, hdr = type*64 + (count-1):       *)
(*              type 0  count pairs (char, attr)                           *)
(*              type 1  char, then count attributes                        *)
(*              type 2  attr, then count characters                        *)
(*              type 3  char, attr (repeated count times)                  *)
(*            "XBin compression works on a ROW by ROW basis. The           *)
(*             compression does NOT carry through to the next line."       *)
(*                                                                         *)
(* A picture cell in this module is a pair <<ch, at>> of the two bytes of  *)
(* video memory.  What the attribute byte MEANS (CellOf / AttrByte below): *)
(*   blink mode     : fg = bits 0-3, bg = bits 4-6, blink = bit 7          *)
(*   non-blink (ice): fg = bits 0-3, bg = bits 4-7                         *)
(*   512 characters : bit 3 selects the second font, fg = bits 0-2         *)
(* (Attr.tla is the byte codec shared with C18.)                           *)
(*                                                                         *)
(* The count field is 6 bits in the real format.  RunBase (= 64 there) is  *)
(* a constant so that the model checker can explore a scaled-down layout   *)
(* in which the run-length limit is reachable with rows of 3-5 cells.      *)
(*                                                                         *)
(* The ENCODER is deliberately not specified here: every stream for which  *)
(* ValidStream holds and which decodes to the picture is a correct         *)
(* compression (C06 does not depend on the heuristics of the writer).      *)
(* XBinCompressor.tla transcribes the engine's greedy run builder as a     *)
(* separate, implementation-shaped model (drift only).                     *)
(***************************************************************************)
EXTENDS Naturals, Sequences, SequencesExt, Attr
CONSTANT RunBase                     \* 64 in the real format: hdr = type * RunBase + (count - 1)

MaxRun == RunBase

\* ------------------------------------------------------------------ header
FlagPalette  == 1
FlagFont     == 2
FlagCompress == 4
FlagNonBlink == 8
Flag512      == 16
HasFlag(flags, f) == (flags \div f) % 2 = 1

HeaderLen == 11
U16(b, o) == b[o] + 256 * b[o + 1]                  \* little endian, 1-based offset
Magic == <<88, 66, 73, 78>>                          \* "XBIN"

\* [ok, w, h, fh, flags]; offsets are 1-based (b[1] = 'X')
Header(b) ==
  IF Len(b) < HeaderLen \/ SubSeq(b, 1, 4) # Magic
  THEN [ok |-> FALSE, w |-> 0, h |-> 0, fh |-> 0, flags |-> 0]
  ELSE [ok |-> TRUE, w |-> U16(b, 6), h |-> U16(b, 8), fh |-> b[10], flags |-> b[11]]

\* "Any value from 1 to 32 is technically possible on VGA. Any other values should be considered illegal."
\* "512Chars ... also requires the Font bit to be set"; a font size other than 16 needs the Font bit.
HeaderLegal(hd) ==
  /\ hd.ok /\ hd.fh \in 1..32 /\ hd.flags < 32
  /\ (HasFlag(hd.flags, Flag512) => HasFlag(hd.flags, FlagFont))
  /\ (hd.fh # 16 => HasFlag(hd.flags, FlagFont))

PaletteLen(flags) == IF HasFlag(flags, FlagPalette) THEN 48 ELSE 0
XbFontLen(flags, fh) == IF HasFlag(flags, FlagFont) THEN (IF HasFlag(flags, Flag512) THEN 512 ELSE 256) * fh ELSE 0
\* number of bytes between the header and the image data
MidLen(hd) == PaletteLen(hd.flags) + XbFontLen(hd.flags, hd.fh)
ImageOffset(hd) == HeaderLen + MidLen(hd) + 1        \* 1-based offset of the first image byte

\* ------------------------------------------------------------------ meaning of the attribute byte
AttrMode(flags) == IF HasFlag(flags, FlagNonBlink) THEN 2 ELSE 1       \* mode numbers of Attr.tla
\* [fg, bg, bl, pg] shown for attribute byte `at` under the header flags
CellOf(at, flags) ==
  LET d == Decode(at, AttrMode(flags)) IN
  IF HasFlag(flags, Flag512) THEN [fg |-> d.fg % 8, bg |-> d.bg, bl |-> d.bl, pg |-> d.fg \div 8]
  ELSE [fg |-> d.fg, bg |-> d.bg, bl |-> d.bl, pg |-> 0]
\* the attribute byte that shows (fg, bg, blink, font page); representable iff Representable(..)
AttrByte(fg, bg, bl, pg, flags) ==
  IF HasFlag(flags, Flag512) THEN Encode(fg % 8, bg, bl, 0, AttrMode(flags)) + 8 * pg
  ELSE Encode(fg, bg, bl, 0, AttrMode(flags))
Representable(fg, bg, bl, pg, flags) ==
  /\ Expressible(fg, bg, bl, 0, AttrMode(flags))
  /\ IF HasFlag(flags, Flag512) THEN fg < 8 /\ pg \in 0..1 ELSE pg = 0

\* ------------------------------------------------------------------ raw image
\* [ok, rows, o]: h rows of w pairs starting at offset o
RawRow(b, o, w) == [i \in 1..w |-> <<b[o + 2 * i - 2], b[o + 2 * i - 1]>>] \o <<>>     \* (\o <<>> makes TLC build the tuple once)
DecodeRaw(b, o, w, h) ==
  IF o + 2 * w * h - 1 > Len(b) THEN [ok |-> FALSE, why |-> "truncated", rows |-> <<>>, o |-> o]
  ELSE [ok |-> TRUE, why |-> "", rows |-> [y \in 1..h |-> RawRow(b, o + 2 * w * (y - 1), w)] \o <<>>, o |-> o + 2 * w * h]

\* ------------------------------------------------------------------ compressed image: the decoder IS the specification
RunType(hd)  == hd \div RunBase             \* 0 none, 1 character, 2 attribute, 3 both
RunCount(hd) == (hd % RunBase) + 1          \* 1..RunBase
\* payload bytes following the run header
RunPayload(ty, n) == CASE ty = 0 -> 2 * n [] ty = 3 -> 2 [] OTHER -> n + 1
RunCells(b, o, ty, n) ==                     \* o = offset of the run header
  CASE ty = 0 -> [i \in 1..n |-> <<b[o + 2 * i - 1], b[o + 2 * i]>>]
    [] ty = 1 -> [i \in 1..n |-> <<b[o + 1], b[o + 1 + i]>>]
    [] ty = 2 -> [i \in 1..n |-> <<b[o + 1 + i], b[o + 1]>>]
    [] OTHER  -> [i \in 1..n |-> <<b[o + 1], b[o + 2]>>]

\* (Style notes for TLC: LET definitions are re-evaluated at every use inside actions whereas operator arguments are
\*  evaluated once, so values used several times are passed as arguments of helper operators; long loops are folds.)
RECURSIVE DecodeRow(_, _, _, _)
\* one run of type ty and n cells at offset o, acc = cells of this row so far
DecodeRun(b, o, w, acc, ty, n) ==
  IF ty > 3 THEN [ok |-> FALSE, why |-> "bad-run-header", cells |-> acc, o |-> o]
  ELSE IF Len(acc) + n > w THEN [ok |-> FALSE, why |-> "run-crosses-row-end", cells |-> acc, o |-> o]
  ELSE IF o + RunPayload(ty, n) > Len(b) THEN [ok |-> FALSE, why |-> "truncated-run", cells |-> acc, o |-> o]
  ELSE DecodeRow(b, o + 1 + RunPayload(ty, n), w, acc \o RunCells(b, o, ty, n))
\* consume runs from offset o until exactly w cells: [ok, why, cells, o]
DecodeRow(b, o, w, acc) ==
  IF Len(acc) = w THEN [ok |-> TRUE, why |-> "", cells |-> acc, o |-> o]
  ELSE IF o > Len(b) THEN [ok |-> FALSE, why |-> "truncated-row", cells |-> acc, o |-> o]
  ELSE DecodeRun(b, o, w, acc, RunType(b[o]), RunCount(b[o]))

\* rows are decoded one after the other (a fold: TLC evaluates FoldLeft iteratively, deep RECURSIVE chains are slow)
\* st = [ok, why, rows, o]; r = result of decoding the next row at st.o
RowsStep(st, r) ==
  IF r.ok THEN [ok |-> TRUE, why |-> "", rows |-> Append(st.rows, r.cells), o |-> r.o]
  ELSE [ok |-> FALSE, why |-> r.why, rows |-> st.rows, o |-> r.o]
Iota(n) == [i \in 1..n |-> i] \o <<>>
\* [ok, why, rows, o]: h rows of w cells from offset o; o = offset after the last row (or of the failing run)
DecodeRows(b, o, w, h) ==
  FoldLeft(LAMBDA st, y : IF st.ok THEN RowsStep(st, DecodeRow(b, st.o, w, <<>>)) ELSE st,
           [ok |-> TRUE, why |-> "", rows |-> <<>>, o |-> o], Iota(h))

\* ------------------------------------------------------------------ what may follow the image: nothing or a SAUCE block
\* (SAUCE rev. 5: 1A, optional "COMNT" + n*64, "SAUCE" + 123 bytes; comment count at record offset 104)
SauceId == <<83, 65, 85, 67, 69>>
ComntId == <<67, 79, 77, 78, 84>>
TrailerOk(t) ==
  \/ t = <<>>
  \/ /\ Len(t) >= 128
     /\ SubSeq(t, Len(t) - 127, Len(t) - 123) = SauceId
     /\ LET n == t[Len(t) - 127 + 104]
            clen == IF n > 0 THEN 5 + 64 * n ELSE 0 IN
        \/ Len(t) = 128 + clen /\ (n > 0 => SubSeq(t, 1, 5) = ComntId)                     \* no EOF character
        \/ Len(t) = 129 + clen /\ t[1] = 26 /\ (n > 0 => SubSeq(t, 2, 6) = ComntId)

\* C06, second sentence: every row decodes to exactly w cells by runs of 1..MaxRun cells that do not cross the row
\* end, and nothing but the optional SAUCE record follows row h.
StreamOk(img, d) == d.ok /\ TrailerOk(SubSeq(img, d.o, Len(img)))              \* d = DecodeRows(img, 1, w, h)
StreamWhyOf(img, d) == IF ~d.ok THEN d.why ELSE IF ~TrailerOk(SubSeq(img, d.o, Len(img))) THEN "bytes-after-last-row" ELSE ""
ValidStream(img, w, h) == StreamOk(img, DecodeRows(img, 1, w, h))
StreamWhy(img, w, h) == StreamWhyOf(img, DecodeRows(img, 1, w, h))

\* ------------------------------------------------------------------ whole file (used by C05)
\* [ok, why, hd, pal, fonts, rows]
Decode6(v) == ((v * 4) % 256) + (v \div 16)            \* 6-bit VGA DAC value -> 8 bit (v<<2 | v>>4)
FileFail(why, hd) == [ok |-> FALSE, why |-> why, hd |-> hd, pal |-> <<>>, fonts |-> <<>>, rows |-> <<>>]
FilePalette(b, hd) ==
  IF HasFlag(hd.flags, FlagPalette) THEN [i \in 1..16 |-> <<b[HeaderLen + 3 * i - 2], b[HeaderLen + 3 * i - 1], b[HeaderLen + 3 * i]>>] \o <<>> ELSE <<>>
FontCount(flags) == IF ~HasFlag(flags, FlagFont) THEN 0 ELSE IF HasFlag(flags, Flag512) THEN 2 ELSE 1
FileFonts(b, hd, fo) == [k \in 1..FontCount(hd.flags) |-> SubSeq(b, fo + (k - 1) * 256 * hd.fh, fo + k * 256 * hd.fh - 1)] \o <<>>
FileWithImage(b, hd, img) ==
  [ok |-> img.ok /\ TrailerOk(SubSeq(b, img.o, Len(b))), why |-> IF img.ok THEN (IF TrailerOk(SubSeq(b, img.o, Len(b))) THEN "" ELSE "bytes-after-last-row") ELSE img.why,
   hd |-> hd, pal |-> FilePalette(b, hd), fonts |-> FileFonts(b, hd, HeaderLen + 1 + PaletteLen(hd.flags)), rows |-> img.rows]
FileWithHeader(b, hd) ==
  IF ~hd.ok THEN FileFail("header", hd)
  ELSE IF Len(b) < HeaderLen + MidLen(hd) THEN FileFail("truncated-tables", hd)
  ELSE FileWithImage(b, hd, IF HasFlag(hd.flags, FlagCompress) THEN DecodeRows(b, ImageOffset(hd), hd.w, hd.h) ELSE DecodeRaw(b, ImageOffset(hd), hd.w, hd.h))
DecodeFile(b) == FileWithHeader(b, Header(b))

\* ------------------------------------------------------------------ small-scope domain of C06 (exported to the driver by Gen_XBin)
\* "exhaustively for all rows of width 1..=7 over an alphabet of 3 characters x 3 attributes x 2 font pages
\*  (and width <= 10 over 2x2)".  Attributes are (fg, bg, blink) with fg < 8 so that they exist in 512-character mode.
Small3Chars == <<65, 0, 32>>          \* a letter and the two "empty" codes NUL and blank (they must stay distinct cells)
Small3Attrs == << <<7, 0, 0>>, <<1, 3, 0>>, <<7, 4, 0>> >>
Small3Pages == <<0, 1>>
Small3MaxW  == 7
Small2Chars == <<176, 32>>
Small2Attrs == << <<15, 1, 0>>, <<7, 1, 0>> >>
Small2MaxW  == 10
=============================================================================
