---------------------------- MODULE Trace_Unicode ----------------------------
(* C10 on the non-terminal entry points: clipboard cell records, glyph tables,  *)
(* IcyDraw cell records and strings.  cells{codes}: numeric values of stored     *)
(* characters; str{bytes}: bytes of a string the engine built.  r = "abort": the  *)
(* worker process died inside that unit (dev profile: an invalid char aborts).   *)
EXTENDS Utf8, TraceLib
VARIABLES l
vars == <<l>>
Init == l = 1 /\ InitRegs
Next ==
  /\ l <= Len(Rec)
  /\ LET e == Rec[l] IN
     /\ Bump(3)
     /\ CASE e.ev = "cells" ->
               /\ Bump(4) /\ BumpBy(6, Len(e.codes))
               /\ Check(\A i \in 1..Len(e.codes) : Scalar(e.codes[i]), "C10", "CellsScalar", l, [src |-> e.src, what |-> e.what])
               /\ Check(e.r \notin {"panic", "abort"}, "C10", "EntryPointPanics", l, [src |-> e.src, what |-> e.what])
          [] e.ev = "str" ->
               /\ Bump(5)
               /\ Check(WellFormed(e.bytes), "C10", "StringWellFormed", l, [src |-> e.src, what |-> e.what, bytes |-> e.bytes])
               \* long strings are recorded as an excerpt (cut at a character boundary); `valid` is the verdict of
               \* std::str::from_utf8 on the whole string
               /\ Check(("valid" \notin DOMAIN e) \/ e.valid = 1, "C10", "StringWellFormed", l, [src |-> e.src, what |-> e.what, bytes |-> <<>>])
          [] e.ev = "note" -> TRUE
          [] OTHER -> Viol("TOOL", "unknown-event", l, e.ev)
  /\ l' = l + 1
Spec == Init /\ [][Next]_vars
=============================================================================
