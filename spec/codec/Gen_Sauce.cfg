SPECIFICATION GenSpec
CONSTANTS RecLen = 8
          CmtLen = 2
          SauceId <- SauceIdSmall
          CmtId <- CmtIdSmall
          EofByte = 1
          CountOff = 5
          MaxLen = 0
          MaxContent = 0
INVARIANT Emit
CHECK_DEADLOCK FALSE
