------------------------------- MODULE MC_Attr -------------------------------
(* The domain is finite, so the state graph IS the domain: one initial state   *)
(* per (byte, mode) and per (fg, bg, blink, bold, mode); both identities are    *)
(* invariants.  R1 shows the design codec of Attr.tla is an exact inverse pair. *)
EXTENDS Attr, TLC
VARIABLES kind, b, m, fg, bg, bl, bo
vars == <<kind, b, m, fg, bg, bl, bo>>
Init == \/ kind = "dec" /\ b \in 0..255 /\ m \in Modes /\ fg = 0 /\ bg = 0 /\ bl = 0 /\ bo = 0
        \/ kind = "enc" /\ b = 0 /\ m \in Modes /\ fg \in 0..15 /\ bg \in 0..15 /\ bl \in 0..1 /\ bo \in 0..1
\* one step: re-encode / re-decode (so that transitions exist and the fixpoint is visible)
Next == \/ kind = "dec" /\ kind' = "done" /\ b' = (LET a == Decode(b, m) IN Encode(a.fg, a.bg, a.bl, 0, m)) /\ UNCHANGED <<m, fg, bg, bl, bo>>
        \/ kind = "enc" /\ kind' = "done" /\ b' = Encode(fg, bg, bl, bo, m) /\ UNCHANGED <<m, fg, bg, bl, bo>>
Spec == Init /\ [][Next]_vars
InvDecEnc == kind = "dec" => DecEnc(b, m)
InvEncDec == kind = "enc" => EncDec(fg, bg, bl, bo, m)
=============================================================================
