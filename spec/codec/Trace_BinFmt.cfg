SPECIFICATION Spec
CONSTANTS RunBase = 64
          FontLen = 4096
          AdfPalEntries = 64
          AdfWidth = 80
POSTCONDITION Post
CHECK_DEADLOCK FALSE
