SPECIFICATION Spec
CONSTANTS RunBase = 3
          Chars = {0, 1}
          Attrs = {2, 3}
          W = 4
          H = 1
          JunkLen = 4
INVARIANT EncoderSound
INVARIANT CrossingRejected
INVARIANT HeadersInRange
CHECK_DEADLOCK FALSE
