--------------------------------- MODULE Crc ---------------------------------
(***************************************************************************)
(* CRC-16/XMODEM and CRC-32 (IEEE 802.3) as shift registers: one byte =     *)
(* eight steps of polynomial division.  This is the DEFINITION the table-   *)
(* driven Rust routines (src/crc.rs) are checked against (C19).             *)
(* TLC integers are 32-bit signed, so a CRC-32 register is a pair of        *)
(* 16-bit halves <<hi, lo>>.                                                *)
(***************************************************************************)
EXTENDS Naturals, Sequences, Bitwise

\* ---------------- CRC-16/XMODEM: polynomial 0x1021, MSB first, init 0 ----------------
RECURSIVE Div16(_, _)
Div16(crc, n) ==                     \* n division steps on a 16-bit register
  IF n = 0 THEN crc
  ELSE LET sh == (crc * 2) % 65536 IN
       Div16(IF crc >= 32768 THEN sh ^^ 4129 ELSE sh, n - 1)        \* 4129 = 0x1021
Crc16Byte(crc, b) == Div16(crc ^^ (b * 256), 8)
RECURSIVE Crc16From(_, _, _)
Crc16From(crc, bytes, i) == IF i > Len(bytes) THEN crc ELSE Crc16From(Crc16Byte(crc, bytes[i]), bytes, i + 1)
Crc16(bytes) == Crc16From(0, bytes, 1)

\* ---------------- CRC-32: polynomial 0xEDB88320, LSB first, init ~0, final inversion ----------------
PolyHi == 60856     \* 0xEDB8
PolyLo == 33568     \* 0x8320
RECURSIVE Div32(_, _)
Div32(r, n) ==                       \* r = <<hi, lo>>
  IF n = 0 THEN r
  ELSE LET lsb == r[2] % 2
           lo == (r[2] \div 2) + (r[1] % 2) * 32768
           hi == r[1] \div 2
       IN Div32(IF lsb = 1 THEN <<hi ^^ PolyHi, lo ^^ PolyLo>> ELSE <<hi, lo>>, n - 1)
Crc32Byte(r, b) == Div32(<<r[1], r[2] ^^ b>>, 8)     \* raw register update (no inversion): update_crc32
RECURSIVE Crc32From(_, _, _)
Crc32From(r, bytes, i) == IF i > Len(bytes) THEN r ELSE Crc32From(Crc32Byte(r, bytes[i]), bytes, i + 1)
Inv32(r) == <<65535 - r[1], 65535 - r[2]>>
Crc32(bytes) == Inv32(Crc32From(<<65535, 65535>>, bytes, 1))

\* ---------------- table-driven formulations (the design of src/crc.rs), for R1 ----------------
T16(i) == Crc16Byte(0, i)                                           \* CRC16_CCITT_TABLE[i]
Crc16ByteTable(crc, b) == ((crc * 256) % 65536) ^^ T16((crc \div 256) ^^ b)
T32(i) == Crc32Byte(<<0, 0>>, i)                                    \* CRC32_TABLE[0][i]
ShiftR8(r) == <<r[1] \div 256, (r[2] \div 256) + (r[1] % 256) * 256>>
Xor32(a, b) == <<a[1] ^^ b[1], a[2] ^^ b[2]>>
Crc32ByteTable(r, b) == Xor32(ShiftR8(r), T32((r[2] % 256) ^^ b))
\* slicing recurrence: T[k+1][i] = (T[k][i] >> 8) xor T[0][T[k][i] & 0xFF]
RECURSIVE TSlice(_, _)
TSlice(k, i) == IF k = 0 THEN T32(i) ELSE LET p == TSlice(k - 1, i) IN Xor32(ShiftR8(p), T32(p[2] % 256))
\* a 16-byte block processed with the 16 slice tables (get_crc32 fast path) on raw register r
RECURSIVE XorAll(_, _)
XorAll(s, i) == IF i > Len(s) THEN <<0, 0>> ELSE Xor32(s[i], XorAll(s, i + 1))
Block16(r, blk) ==
  LET rb == << r[2] % 256, r[2] \div 256, r[1] % 256, r[1] \div 256 >>     \* register bytes, least significant first
  IN XorAll([j \in 1..16 |-> TSlice(16 - j, IF j <= 4 THEN blk[j] ^^ rb[j] ELSE blk[j])], 1)
=============================================================================
