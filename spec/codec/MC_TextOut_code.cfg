SPECIFICATION Spec
CONSTANTS MaxW = 4
          AvtGoto = "code"
INVARIANT ReaderTotal
INVARIANT RoundTrip
CHECK_DEADLOCK FALSE
