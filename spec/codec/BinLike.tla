------------------------------- MODULE BinLike -------------------------------
(***************************************************************************)
(* The "memory image" art formats BIN, ArtWorx ADF, iCE Draw IDF and        *)
(* TundraDraw, as DECODERS written from the format documents                *)
(*   doc/FileFormats/Adf/ArtworxDataFormat.txt, doc/FileFormats/IceDraw/    *)
(*   idv_103.pas, SAUCE rev. 5 (BinaryText), the TUNDRA description         *)
(*   (fileformats.archiveteam.org/wiki/TUNDRA, DESIGN.md Appendix G)        *)
(* - model layer of C05.  XBin is in XBin.tla.                              *)
(*                                                                         *)
(*  BIN    : w*h pairs (character, attribute); w comes from outside        *)
(*           (SAUCE FileType * 2, default 160)                              *)
(*  ADF    : version(1) palette(PalLen: 64 VGA DAC triplets, 6 bit)         *)
(*           font(FontLen = 256*16) pairs at width 80; the 16 text colours  *)
(*           are the DAC registers the EGA attribute controller selects:    *)
(*           0 1 2 3 4 5 20 7 56 57 58 59 60 61 62 63; always iCE colours   *)
(*  IDF    : "\x041.4" x1 y1 x2 y2 (u16) words..., font(FontLen),           *)
(*           palette(16 triplets, 6 bit); a word is (char, attr); the word  *)
(*           0x0001 (char 1, attr 0) is followed by a count word and the    *)
(*           word to repeat ("1 (x) (y) : do x repeats of y"); always iCE   *)
(*  Tundra : 24 "TUNDRA24" records: 1 y:u32be x:u32be (position);           *)
(*           2|4|6 ch [0 r g b](fg) [0 r g b](bg) (colour change, then the  *)
(*           character); any other byte is a literal character in the       *)
(*           current colours.  Colours are 24 bit RGB; no blink; iCE.       *)
(*                                                                         *)
(* Layout sizes that do not matter for the logic are CONSTANTS so that the  *)
(* model checker can run on scaled-down layouts (MC_BinLike): FontLen       *)
(* (4096), the row width of ADF (80); AdfPalEntries is 64 everywhere.       *)
(* Decoders return [ok, w, h, rows, ...]; rows = sequence of rows of cells; *)
(* a cell is <<ch, at>> (attribute byte) for BIN/ADF/IDF and                *)
(* <<ch, fgRGB, bgRGB>> for Tundra (RGB = <<r, g, b>>).                     *)
(***************************************************************************)
EXTENDS Naturals, Sequences, SequencesExt
CONSTANTS FontLen,          \* bytes of the embedded font (4096 = 256 glyphs x 16 rows)
          AdfPalEntries,    \* DAC registers stored by ADF (64)
          AdfWidth          \* columns of an ADF picture (80)

Ints(n) == [i \in 1..n |-> i] \o <<>>
Fail(why) == [ok |-> FALSE, why |-> why, w |-> 0, h |-> 0, rows |-> <<>>, pal |-> <<>>, font |-> <<>>]

\* ------------------------------------------------------------------ SAUCE (rev. 5) as far as these formats need it
\* ... content 1A ["COMNT" n*64] "SAUCE" "00" title[35] author[20] group[20] date[8] filesize:u32 datatype filetype
\*     tinfo1..4:u16 comments flags tinfos[22]      (128 bytes; field offsets below are 0-based within the record)
SauceTag == <<83, 65, 85, 67, 69>>
HasSauce(b) == Len(b) >= 128 /\ SubSeq(b, Len(b) - 127, Len(b) - 123) = SauceTag
SauceByte(b, off) == b[Len(b) - 127 + off]
SauceDataType(b) == SauceByte(b, 94)             \* 1 character, 5 binary text, 6 XBin
SauceFileType(b) == SauceByte(b, 95)             \* binary text: width / 2
SauceTInfo1(b) == SauceByte(b, 96) + 256 * SauceByte(b, 97)
SauceFlags(b) == SauceByte(b, 105)               \* bit 0: non-blink (iCE colours)
SauceBlockLen(b) == 128 + (IF SauceByte(b, 104) > 0 THEN 5 + 64 * SauceByte(b, 104) ELSE 0)
\* the file content without the SAUCE block and the EOF character in front of it
Content(b) ==
  IF ~HasSauce(b) \/ SauceBlockLen(b) > Len(b) THEN b
  ELSE IF Len(b) > SauceBlockLen(b) /\ b[Len(b) - SauceBlockLen(b)] = 26 THEN SubSeq(b, 1, Len(b) - SauceBlockLen(b) - 1)
  ELSE SubSeq(b, 1, Len(b) - SauceBlockLen(b))
BinWidth(b) == IF HasSauce(b) /\ SauceDataType(b) = 5 /\ SauceFileType(b) > 0 THEN 2 * SauceFileType(b) ELSE 160
Dos16 == << <<0,0,0>>, <<0,0,170>>, <<0,170,0>>, <<0,170,170>>, <<170,0,0>>, <<170,0,170>>, <<170,85,0>>, <<170,170,170>>,
            <<85,85,85>>, <<85,85,255>>, <<85,255,85>>, <<85,255,255>>, <<255,85,85>>, <<255,85,255>>, <<255,255,85>>, <<255,255,255>> >>
Expand6(v) == ((v * 4) % 256) + (v \div 16)          \* 6-bit DAC value -> 8 bit (v<<2 | v>>4)

\* ------------------------------------------------------------------ BIN
\* complete rows only: a trailing partial row / odd byte is not part of the picture
PairRows(b, o, w, h) == [y \in 1..h |-> [x \in 1..w |-> <<b[o + 2 * (w * (y - 1) + x - 1)], b[o + 2 * (w * (y - 1) + x - 1) + 1]>>] \o <<>>] \o <<>>
BinDecode(b, w) ==
  IF w < 1 THEN Fail("width")
  ELSE [ok |-> Len(b) % (2 * w) = 0, why |-> IF Len(b) % (2 * w) = 0 THEN "" ELSE "partial-row", w |-> w, h |-> Len(b) \div (2 * w),
        rows |-> PairRows(b, 1, w, Len(b) \div (2 * w)), pal |-> <<>>, font |-> <<>>]

\* ------------------------------------------------------------------ ADF
AdfColorRegs == <<0, 1, 2, 3, 4, 5, 20, 7, 56, 57, 58, 59, 60, 61, 62, 63>>     \* EGA attribute controller default
AdfReg(i) == AdfColorRegs[i]
AdfHeader == 1 + 3 * AdfPalEntries + FontLen
AdfDecode(b) ==
  IF Len(b) < AdfHeader THEN Fail("too-short")
  ELSE IF b[1] # 1 THEN Fail("version")
  ELSE [ok |-> (Len(b) - AdfHeader) % (2 * AdfWidth) = 0, why |-> IF (Len(b) - AdfHeader) % (2 * AdfWidth) = 0 THEN "" ELSE "partial-row",
        w |-> AdfWidth, h |-> (Len(b) - AdfHeader) \div (2 * AdfWidth),
        rows |-> PairRows(b, AdfHeader + 1, AdfWidth, (Len(b) - AdfHeader) \div (2 * AdfWidth)),
        pal |-> [i \in 1..16 |-> <<b[2 + 3 * AdfReg(i)], b[3 + 3 * AdfReg(i)], b[4 + 3 * AdfReg(i)]>>] \o <<>>,        \* 6-bit values
        font |-> SubSeq(b, 2 + 3 * AdfPalEntries, 1 + 3 * AdfPalEntries + FontLen)]

\* ------------------------------------------------------------------ IDF
IdfMagic13 == <<4, 49, 46, 51>>
IdfMagic14 == <<4, 49, 46, 52>>
IdfHeader == 12
IdfPalLen == 48
W16(b, o) == b[o] + 256 * b[o + 1]
\* screen data = words up to the font; state of the word loop: [o, cells (flat), ok]
\* one step consumes one word or one repeat triple; the loop runs at most (number of words) times
IdfStep(b, endo, st) ==
  IF ~st.ok \/ st.o + 1 > endo THEN st
  ELSE IF b[st.o] = 1 /\ b[st.o + 1] = 0 THEN
         (IF st.o + 5 > endo THEN [o |-> endo + 1, cells |-> st.cells, ok |-> FALSE]
          ELSE [o |-> st.o + 6, cells |-> st.cells \o [i \in 1..W16(b, st.o + 2) |-> <<b[st.o + 4], b[st.o + 5]>>], ok |-> TRUE])
  ELSE [o |-> st.o + 2, cells |-> Append(st.cells, <<b[st.o], b[st.o + 1]>>), ok |-> TRUE]
IdfWords(b, endo) == FoldLeft(LAMBDA st, k : IdfStep(b, endo, st), [o |-> IdfHeader + 1, cells |-> <<>>, ok |-> TRUE], Ints((endo - IdfHeader) \div 2))
IdfShape(b, w, words) ==
  [ok |-> words.ok /\ words.o = Len(b) - FontLen - IdfPalLen + 1 /\ Len(words.cells) % w = 0,
   why |-> IF ~words.ok THEN "truncated-repeat" ELSE IF Len(words.cells) % w # 0 THEN "partial-row" ELSE "",
   w |-> w, h |-> Len(words.cells) \div w,
   rows |-> [y \in 1..(Len(words.cells) \div w) |-> SubSeq(words.cells, (y - 1) * w + 1, y * w)] \o <<>>,
   pal |-> [i \in 1..16 |-> <<b[Len(b) - IdfPalLen + 3 * i - 2], b[Len(b) - IdfPalLen + 3 * i - 1], b[Len(b) - IdfPalLen + 3 * i]>>] \o <<>>,
   font |-> SubSeq(b, Len(b) - IdfPalLen - FontLen + 1, Len(b) - IdfPalLen)]
IdfDecode(b) ==
  IF Len(b) < IdfHeader + FontLen + IdfPalLen THEN Fail("too-short")
  ELSE IF SubSeq(b, 1, 4) # IdfMagic13 /\ SubSeq(b, 1, 4) # IdfMagic14 THEN Fail("magic")
  ELSE IF W16(b, 9) < W16(b, 5) THEN Fail("bounds")
  ELSE IdfShape(b, W16(b, 9) - W16(b, 5) + 1, IdfWords(b, Len(b) - FontLen - IdfPalLen))

\* ------------------------------------------------------------------ Tundra
TundraMagic == <<24, 84, 85, 78, 68, 82, 65, 50, 52>>             \* 24 "TUNDRA24"
U32BE(b, o) == ((b[o] * 256 + b[o + 1]) * 256 + b[o + 2]) * 256 + b[o + 3]      \* values < 2^31 only (checked by the caller)
Black == <<0, 0, 0>>
\* state: [o, x, y, fg, bg, put (sequence of <<x, y, ch, fg, bg>>), ok]; positions 0-based
TndPut(st, w, ch, fg, bg, o) ==
  [o |-> o, x |-> IF st.x + 1 >= w THEN 0 ELSE st.x + 1, y |-> IF st.x + 1 >= w THEN st.y + 1 ELSE st.y, fg |-> fg, bg |-> bg,
   put |-> Append(st.put, <<st.x, st.y, ch, fg, bg>>), ok |-> TRUE]
TndBad(st) == [st EXCEPT !.ok = FALSE]
TndColour(b, st, w, cmd, n) ==                        \* n = Len(b)
  IF st.o + 1 + (IF cmd = 6 THEN 8 ELSE 4) > n THEN TndBad(st)
  ELSE TndPut(st, w, b[st.o + 1],
              IF cmd \in {2, 6} THEN <<b[st.o + 3], b[st.o + 4], b[st.o + 5]>> ELSE st.fg,
              IF cmd = 4 THEN <<b[st.o + 3], b[st.o + 4], b[st.o + 5]>> ELSE IF cmd = 6 THEN <<b[st.o + 7], b[st.o + 8], b[st.o + 9]>> ELSE st.bg,
              st.o + 2 + (IF cmd = 6 THEN 8 ELSE 4))
TndStep(b, w, st) ==
  IF ~st.ok \/ st.o > Len(b) THEN st
  ELSE IF b[st.o] = 1 THEN
         (IF st.o + 8 > Len(b) \/ b[st.o + 1] > 0 \/ b[st.o + 5] > 0 THEN TndBad(st)       \* coordinates far beyond any picture
          ELSE IF U32BE(b, st.o + 5) >= w THEN TndBad(st)
          ELSE [st EXCEPT !.o = st.o + 9, !.y = U32BE(b, st.o + 1), !.x = U32BE(b, st.o + 5)])
  ELSE IF b[st.o] \in {2, 4, 6} THEN TndColour(b, st, w, b[st.o], Len(b))
  ELSE TndPut(st, w, b[st.o], st.fg, st.bg, st.o + 1)
\* every step consumes at least one byte, so Len(b) steps suffice
TndRun(b, w) == FoldLeft(LAMBDA st, k : TndStep(b, w, st), [o |-> Len(TundraMagic) + 1, x |-> 0, y |-> 0, fg |-> Black, bg |-> Black, put |-> <<>>, ok |-> TRUE], Ints(Len(b)))
\* a picture in which every cell was written exactly once, in reading order (the only kind the C05 writer produces)
TndDense(run, w) ==
  /\ run.ok /\ Len(run.put) % w = 0
  /\ \A i \in 1..Len(run.put) : run.put[i][1] = (i - 1) % w /\ run.put[i][2] = (i - 1) \div w
TndShape(run, w) ==
  [ok |-> TndDense(run, w), why |-> IF ~run.ok THEN "bad-record" ELSE IF TndDense(run, w) THEN "" ELSE "not-dense", w |-> w, h |-> Len(run.put) \div w,
   rows |-> [y \in 1..(Len(run.put) \div w) |-> [x \in 1..w |-> <<run.put[(y - 1) * w + x][3], run.put[(y - 1) * w + x][4], run.put[(y - 1) * w + x][5]>>] \o <<>>] \o <<>>,
   pal |-> <<>>, font |-> <<>>]
TundraDecode(b, w) ==
  IF Len(b) < Len(TundraMagic) \/ SubSeq(b, 1, Len(TundraMagic)) # TundraMagic THEN Fail("magic")
  ELSE IF w < 1 THEN Fail("width")
  ELSE TndShape(TndRun(b, w), w)
=============================================================================
