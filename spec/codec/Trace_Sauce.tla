----------------------------- MODULE Trace_Sauce -----------------------------
(* C11: validates recorded save-with-SAUCE / load round trips of the real     *)
(* engine (harness/src/sauce.rs) against Sauce.tla with the real layout.      *)
(*                                                                             *)
(* Events:  reset{case,desc}                                                   *)
(*   sauce{writer, in{title,author,group,comments,ice,ls,ar,font,width,height},*)
(*         save, [site], file_len, content_len, prefix_ok, tail, ex_hdr,       *)
(*         load, has_sauce, out{title,author,group,comments,ice,ls,ar,has_font,*)
(*         font,width,height,hdr}, pic_full, pic_content, load_content}        *)
(* `tail` = the last bytes of the file (a few content bytes, EOF, comment      *)
(* block, record); for IcyDraw the decoded SAUCE chunk.                        *)
EXTENDS Sauce, TraceLib

SauceIdReal == <<83, 65, 85, 67, 69>>       \* "SAUCE"
CmtIdReal == <<67, 79, 77, 78, 84>>         \* "COMNT"

VARIABLES l
vars == <<l>>
Init == l = 1 /\ InitRegs

(***************************************************************************)
(* Property layer.                                                          *)
(* "a file saved with SAUCE yields on load exactly the metadata values its  *)
(*  SAUCE variant can carry": per carried field, value out = value in, where *)
(*  fixed-width texts are compared up to trailing blanks/NULs (a padded field*)
(*  cannot represent them), flags and width exactly.                         *)
(***************************************************************************)
TextEq(a, b) == Strip(a) = Strip(b)
CommentsEq(a, b) == Len(a) = Len(b) /\ \A i \in 1..Len(a) : TextEq(a[i], b[i])

FieldOk(fld, v, in, out) ==
  CASE fld = "title" -> TextEq(out.title, in.title)
    [] fld = "author" -> TextEq(out.author, in.author)
    [] fld = "group" -> TextEq(out.group, in.group)
    [] fld = "comments" -> CommentsEq(out.comments, in.comments)
    [] fld = "ice" -> out.ice = in.ice
    [] fld = "ls" -> out.ls = in.ls
    [] fld = "ar" -> out.ar = in.ar
    [] fld = "font" -> out.has_font = 1 /\ TextEq(out.font, in.font)
    [] fld = "width" -> (WidthCarried(v, in.width) => out.width = in.width)

FieldList == <<"title", "author", "group", "comments", "ice", "ls", "ar", "font", "width">>

(***************************************************************************)
(* "whenever the record's width, ice-colour and font settings equal the     *)
(*  loader's defaults the picture loaded from content+EOF+SAUCE equals the  *)
(*  picture loaded from the content alone".  The precondition is evaluated  *)
(*  on the record that is actually in the file.                             *)
(***************************************************************************)
DefWidth(w) == IF w = "bin" THEN 160 ELSE 80
DefIce(w) == IF w \in {"adf", "idf"} THEN 1 ELSE 0
DefaultFontNames == { <<>>,
   <<67, 111, 100, 101, 112, 97, 103, 101, 32, 52, 51, 55, 32, 69, 110, 103, 108, 105, 115, 104>>,   \* "Codepage 437 English" (fresh buffer)
   <<73, 66, 77, 32, 86, 71, 65>> }                                                                  \* "IBM VGA"
RecordIsDefault(w, rec) ==
  LET v == VariantOf(w)  fl == Fields(rec) IN
  /\ WidthOf(v, fl) = DefWidth(w)
  /\ ("ice" \in Carried(v) => FlagIce(fl.flags) = DefIce(w))
  /\ ("font" \in Carried(v) => Strip(fl.tinfos) \in DefaultFontNames)

(***************************************************************************)
(* Model layer: the record the engine's writer is expected to produce       *)
(* (Buffer::write_sauce_info), byte for byte except the date.               *)
(***************************************************************************)
LE16(n) == <<n % 256, (n \div 256) % 256>>
LE32(n) == <<n % 256, (n \div 256) % 256, (n \div 65536) % 256, (n \div 16777216) % 256>>
ExpFlags(v, in) ==
  CASE v = "ansi" -> in.ice + 4 * in.ls + 8 * in.ar
    [] v \in {"ascii", "bin"} -> in.ice          \* the ASCII branch writes no letter-spacing / aspect-ratio bits (as the code does)
    [] OTHER -> 0
ExpRecordOk(v, in, fl, content_len) ==
  /\ fl.version = <<48, 48>>
  /\ fl.title = PadTo(in.title, 35, Blank) /\ fl.author = PadTo(in.author, 20, Blank) /\ fl.group = PadTo(in.group, 20, Blank)
  /\ fl.filesize = LE32(content_len + 1)          \* as the code does: counts the EOF byte
  /\ fl.datatype = TypeOf(v)[1]
  /\ fl.filetype = (IF v = "bin" THEN in.width \div 2 ELSE TypeOf(v)[2])
  /\ fl.tinfo1 = (IF v = "bin" THEN 0 ELSE in.width % 65536)
  /\ fl.tinfo2 = (IF v \in {"bin", "tundra"} THEN 0 ELSE in.height % 65536)
  /\ fl.tinfo3 = 0 /\ fl.tinfo4 = 0
  /\ fl.comments = Len(in.comments)
  /\ fl.flags = ExpFlags(v, in)
  /\ fl.tinfos = (IF "font" \in Carried(v) THEN PadTo(in.font, 22, Nul) ELSE PadTo(<<>>, 22, Nul))

RECURSIVE CheckFields(_, _, _, _, _, _)
CheckFields(i, w, v, in, out, ll) ==
  IF i > Len(FieldList) THEN TRUE
  ELSE /\ (IF FieldList[i] \in Carried(v)
           THEN Bump(5) /\ Check(FieldOk(FieldList[i], v, in, out), "C11", "Meta", ll, [field |-> FieldList[i], writer |-> w, variant |-> v])
           ELSE TRUE)
       /\ CheckFields(i + 1, w, v, in, out, ll)

Next ==
  /\ l <= Len(Rec)
  /\ LET e == Rec[l] IN
     /\ Bump(3)
     /\ CASE e.ev = "reset" -> TRUE
          [] e.ev = "sauce" ->
               LET v == VariantOf(e.writer) IN
               /\ Bump(4)
               /\ IF e.save # "ok"
                  THEN \* refusing to write is allowed exactly where the variant cannot carry the width at all
                       /\ Check(e.save = "err" /\ ~Writable(v, e.in.width), "C11", "SaveFails", l, [writer |-> e.writer, save |-> e.save, site |-> e.site, width |-> e.in.width])
                       /\ Bump(8)
                  ELSE
                    LET sp == Split(e.tail)
                        n  == Len(e.in.comments) IN
                    \* ---- model layer: byte-exact split and header-length arithmetic
                    /\ Expect(sp.sauce /\ sp.eof /\ sp.cmtok /\ sp.hdr = HeaderLen(n), "split", l, [writer |-> e.writer, n |-> n, hdr |-> sp.hdr])
                    /\ Expect(e.ex_hdr = sp.hdr, "extract-hdr", l, [writer |-> e.writer, ex |-> e.ex_hdr, hdr |-> sp.hdr])
                    /\ Expect(e.prefix_ok = 1 /\ e.file_len = e.content_len + HeaderLen(n), "content-prefix", l, [writer |-> e.writer, file_len |-> e.file_len, content_len |-> e.content_len])
                    /\ (IF sp.sauce
                        THEN /\ Expect(ExpRecordOk(v, e.in, Fields(sp.rec), e.content_len), "record", l, [writer |-> e.writer])
                             /\ Expect(sp.comments = [i \in 1..n |-> PadTo(e.in.comments[i], 64, Nul)] \/ ~sp.cmtok, "comment-block", l, [writer |-> e.writer, n |-> n])
                        ELSE TRUE)
                    \* ---- property layer
                    /\ IF e.load # "ok"
                       THEN Check(FALSE, "C11", "LoadFails", l, [writer |-> e.writer, load |-> e.load, site |-> e.site])
                       ELSE
                         /\ (IF e.has_sauce = 1
                             THEN /\ CheckFields(1, e.writer, v, e.in, e.out, l)
                                  \* the texts as a client reads them (to_string: CP437 -> Unicode, mapped back to codes by the driver; a code
                                  \* without a CP437 glyph comes back as -1) are the texts that were written
                                  /\ (IF Has(e, "out_text")
                                      THEN /\ Check("title" \notin Carried(v) \/ TextEq(e.out_text.title, e.in.title), "C11", "Meta", l, [field |-> "title-as-text", writer |-> e.writer, variant |-> v])
                                           /\ Check("author" \notin Carried(v) \/ TextEq(e.out_text.author, e.in.author), "C11", "Meta", l, [field |-> "author-as-text", writer |-> e.writer, variant |-> v])
                                           /\ Check("group" \notin Carried(v) \/ TextEq(e.out_text.group, e.in.group), "C11", "Meta", l, [field |-> "group-as-text", writer |-> e.writer, variant |-> v])
                                           /\ Check("comments" \notin Carried(v) \/ CommentsEq(e.out_text.comments, e.in.comments), "C11", "Meta", l, [field |-> "comments-as-text", writer |-> e.writer, variant |-> v])
                                      ELSE TRUE)
                                  \* the buffer width carried by the record is also the width of the loaded buffer
                                  /\ Check(WidthCarried(v, e.in.width) => e.buf_width = e.in.width, "C11", "Meta", l, [field |-> "bufwidth", writer |-> e.writer, variant |-> v])
                                  \* a font name the record carries and that names one of the engine's SAUCE fonts is the font of the loaded
                                  \* buffer (formats that do not embed a font of their own): the name is metadata that must take effect
                                  /\ Check(("font_named" \notin DOMAIN e) \/ e.font_named = 0 \/ e.writer \notin {"ans", "asc", "bin"} \/ e.font0 = e.font_named,
                                           "C11", "Meta", l, [field |-> "font-applied", writer |-> e.writer, variant |-> v])
                                  /\ Expect(e.out.hdr = sp.hdr \/ e.writer = "icy", "loaded-hdr", l, [writer |-> e.writer])
                                  /\ Expect(/\ e.out.title = PadTo(ReadField(PadTo(e.in.title, 35, Blank), Blank), 35, Blank)
                                            /\ e.out.author = PadTo(ReadField(PadTo(e.in.author, 20, Blank), Blank), 20, Blank)
                                            /\ e.out.group = PadTo(ReadField(PadTo(e.in.group, 20, Blank), Blank), 20, Blank)
                                            /\ Len(e.out.comments) = n
                                            /\ \A i \in 1..Len(e.out.comments) : i <= n => e.out.comments[i] = PadTo(ReadField(PadTo(e.in.comments[i], 64, Nul), Nul), 64, Nul),
                                            "read-field", l, [writer |-> e.writer])
                             ELSE Check(FALSE, "C11", "MetaPresent", l, [writer |-> e.writer, variant |-> v]))
                         /\ (IF sp.sauce /\ RecordIsDefault(e.writer, sp.rec)
                             THEN /\ Bump(6)
                                  /\ (IF e.tailkind # "plain" THEN Bump(7) ELSE TRUE)
                                  /\ Check(e.load_content = "ok" /\ e.pic_full = e.pic_content, "C11", "PictureEqual", l,
                                           [writer |-> e.writer, full |-> e.pic_full, content |-> e.pic_content, tailkind |-> e.tailkind, n |-> n])
                             ELSE TRUE)
          [] OTHER -> Viol("TOOL", "unknown-event", l, e.ev)
  /\ l' = l + 1
Spec == Init /\ [][Next]_vars
=============================================================================
