--------------------------- MODULE XBinCompressor ---------------------------
(***************************************************************************)
(* MODEL LAYER ONLY (drift, never an alarm): an implementation-shaped       *)
(* transcription of the engine's XBin compressor, src/formats/xbinary.rs    *)
(* compress_backtrack / count_length - a greedy run builder that, where a   *)
(* run could be ended or continued, compares the encoded length of the rest *)
(* of the row for both choices (count_length).                              *)
(*                                                                         *)
(* State of the run being assembled (the critical section of C06):          *)
(*   mode  0 none / 1 character / 2 attribute / 3 both  (run_mode)          *)
(*   rc    cells in the run so far, 1..RunBase           (run_count)        *)
(*   rch   the run's first cell                          (run_ch)           *)
(*   buf   payload bytes collected so far                (run_buf)          *)
(* A cell is <<ch, at, pg, byte>>: character, attribute WITHOUT font page   *)
(* (what TextAttribute's PartialEq compares), font page, and the attribute  *)
(* byte written to the file (page in bit 3 in 512-character mode).          *)
(* AttributedChar/TextAttribute equality ignores the font page - EqCell,    *)
(* EqAttr below - which is why a "both" run (mode 3) swallows cells that    *)
(* differ only in the font page.  The parameter fix = TRUE models the       *)
(* proposed repair (proposed_fixes/C06-1.md): compress_backtrack also       *)
(* compares the font pages where it starts and where it ends a "both" run;  *)
(* count_length - a pure cost estimate - is left as it is.                  *)
(***************************************************************************)
EXTENDS XBin

Ch(c) == c[1]
At(c) == c[2]
Pg(c) == c[3]
By(c) == c[4]
EqAttr(a, b, fix) == At(a) = At(b) /\ (fix => Pg(a) = Pg(b))
EqCell(a, b, fix) == Ch(a) = Ch(b) /\ EqAttr(a, b, fix)

\* run type chosen when a new run starts at 0-based column x
StartMode(row, w, x, fix) ==
  IF x + 1 < w THEN
    LET cur == row[x + 1]  next == row[x + 2] IN
    IF EqCell(cur, next, fix) THEN 3 ELSE IF Ch(cur) = Ch(next) THEN 1 ELSE IF EqAttr(cur, next, FALSE) THEN 2 ELSE 0
  ELSE 0

\* ---------- count_length: bytes needed for columns x.. when the pending decision is er ("t" end the run, "f" continue,
\* "none" decide by the look-ahead rules)
\* the look-ahead rule of count_length for a run in progress
Decide(row, w, mode, rch, rc, x, cur, fix) ==
  IF rc >= RunBase THEN "t"
  ELSE CASE mode = 0 ->
             IF x + 2 < w /\ EqCell(cur, row[x + 2], fix) THEN "t"
             ELSE IF x + 2 < w THEN
                    (IF (Ch(cur) = Ch(row[x + 2]) /\ Ch(cur) = Ch(row[x + 3])) \/ (EqAttr(cur, row[x + 2], fix) /\ EqAttr(cur, row[x + 3], fix)) THEN "t" ELSE "f")
             ELSE "none"
         [] mode = 1 ->
             IF Ch(cur) # Ch(rch) THEN "t"
             ELSE IF x + 3 < w THEN (IF EqCell(cur, row[x + 2], fix) /\ EqCell(cur, row[x + 3], fix) /\ EqCell(cur, row[x + 4], fix) THEN "t" ELSE "f")
             ELSE "none"
         [] mode = 2 ->
             IF ~EqAttr(cur, rch, fix) THEN "t"
             ELSE IF x + 3 < w THEN (IF EqCell(cur, row[x + 2], fix) /\ EqCell(cur, row[x + 3], fix) /\ EqCell(cur, row[x + 4], fix) THEN "t" ELSE "f")
             ELSE "none"
         [] OTHER -> IF EqCell(cur, rch, fix) THEN "f" ELSE "t"

\* count_length is a loop over the columns x..w-1 with state cs = [mode, rch, er, rc, count]
\* second half of the loop body: ended = the run in progress was just closed (one header byte counted)
CountNext(row, w, fix, cs, x, ended) ==
  IF cs.rc > 0 /\ ~ended
  THEN [mode |-> cs.mode, rch |-> cs.rch, er |-> "none", rc |-> cs.rc + 1, count |-> cs.count + (CASE cs.mode = 0 -> 2 [] cs.mode = 3 -> 0 [] OTHER -> 1)]
  ELSE [mode |-> StartMode(row, w, x, fix), rch |-> row[x + 1], er |-> "none", rc |-> 1, count |-> cs.count + 2 + (IF ended THEN 1 ELSE 0)]
CountStep(row, w, fix, cs, x) ==
  CountNext(row, w, fix, cs, x,
            cs.rc > 0 /\ (IF cs.er = "none" THEN Decide(row, w, cs.mode, cs.rch, cs.rc, x, row[x + 1], fix) ELSE cs.er) = "t")
Cols(x, w) == [i \in 1..(w - x) |-> x + i - 1] \o <<>>          \* <<x, x+1, .., w-1>>
CountLength(row, w, mode, rch, er, rc, x, fix) ==
  FoldLeft(LAMBDA cs, xx : CountStep(row, w, fix, cs, xx), [mode |-> mode, rch |-> rch, er |-> er, rc |-> rc, count |-> 0], Cols(x, w)).count

\* end the run now iff that is strictly shorter than continuing
Shorter(row, w, mode, rch, rc, x) ==
  CountLength(row, w, mode, rch, "t", rc, x, FALSE) < CountLength(row, w, mode, rch, "f", rc, x, FALSE)

\* ---------- compress_backtrack, one row: a loop over the columns with state s = [mode, rc, rch, buf, out]
EndRun(row, w, mode, rch, rc, x, cur, fix) ==
  IF rc >= RunBase THEN TRUE
  ELSE CASE mode = 0 -> IF x + 2 < w /\ (Ch(cur) = Ch(row[x + 2]) \/ EqAttr(cur, row[x + 2], FALSE)) THEN Shorter(row, w, mode, rch, rc, x) ELSE FALSE
         [] mode = 1 -> IF Ch(cur) # Ch(rch) \/ Pg(cur) # Pg(rch) THEN TRUE
                        ELSE IF x + 4 < w /\ EqAttr(cur, row[x + 2], FALSE) /\ EqAttr(cur, row[x + 3], FALSE) THEN Shorter(row, w, mode, rch, rc, x) ELSE FALSE
         [] mode = 2 -> IF At(cur) # At(rch) \/ Pg(cur) # Pg(rch) THEN TRUE
                        ELSE IF x + 3 < w /\ Ch(cur) = Ch(row[x + 2]) /\ Ch(cur) = Ch(row[x + 3]) THEN Shorter(row, w, mode, rch, rc, x) ELSE FALSE
         [] OTHER -> ~EqCell(cur, rch, fix)

Flush(out, mode, rc, buf) == out \o <<mode * RunBase + (rc - 1)>> \o buf
\* a new run starts at column x with the cell cur; m = its type
StartRun(s, cur, m, out) == [mode |-> m, rc |-> 1, rch |-> cur, buf |-> IF m = 2 THEN <<By(cur), Ch(cur)>> ELSE <<Ch(cur), By(cur)>>, out |-> out]
\* the cell cur joins the run in progress
Extend(s, cur) ==
  [mode |-> s.mode, rc |-> s.rc + 1, rch |-> s.rch, out |-> s.out,
   buf |-> s.buf \o (CASE s.mode = 0 -> <<Ch(cur), By(cur)>> [] s.mode = 1 -> <<By(cur)>> [] s.mode = 2 -> <<Ch(cur)>> [] OTHER -> <<>>)]
CompressNext(row, w, fix, s, x, cur, end) ==
  IF s.rc > 0 /\ ~end THEN Extend(s, cur)
  ELSE StartRun(s, cur, StartMode(row, w, x, fix), IF end THEN Flush(s.out, s.mode, s.rc, s.buf) ELSE s.out)
CompressStep(row, w, fix, s, x) ==
  CompressNext(row, w, fix, s, x, row[x + 1], s.rc > 0 /\ EndRun(row, w, s.mode, s.rch, s.rc, x, row[x + 1], fix))
RowEnd(s) == IF s.rc > 0 THEN Flush(s.out, s.mode, s.rc, s.buf) ELSE s.out
CompressRow(row, fix) ==
  RowEnd(FoldLeft(LAMBDA s, x : CompressStep(row, Len(row), fix, s, x), [mode |-> 0, rc |-> 0, rch |-> <<0, 0, 0, 0>>, buf |-> <<>>, out |-> <<>>], Cols(0, Len(row))))

\* all rows (rows must be a tuple of tuples); the run state is reset at every row
Compress(rows, fix) == FoldLeft(LAMBDA out, row : out \o CompressRow(row, fix), <<>>, rows)

\* what the decoder of XBin.tla must read back: <<character, attribute byte>> per cell
Target(row) == [i \in 1..Len(row) |-> <<Ch(row[i]), By(row[i])>>]
=============================================================================
