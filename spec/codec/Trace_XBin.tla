----------------------------- MODULE Trace_XBin -----------------------------
(* C06: validates what the real XBin writer/reader did against XBin.tla.       *)
(* One event per buffer (harness/src/xbin.rs):                                 *)
(*  xb{ k: "exh3"|"exh2"|"rnd", w, h, ice, nf (fonts used by the source),      *)
(*      src:  w*h packed source cells, row-major                               *)
(*            code = ch + 256*fg + 4096*bg + 65536*blink + 131072*page         *)
(*      c, r: the compressed / uncompressed file: {st, hdr (11 bytes), mid     *)
(*            (bytes cut out between header and image), img (image .. EOF)}    *)
(*      dc, dr: the ENGINE's decode of the two files: {st, w, h, cells}        *)
(*            (same packing, + 262144*bold + 524288*invisible) }               *)
(* Property layer (C06) - only these can alarm:                                *)
(*   Outcome          saving and loading both encodings succeeds               *)
(*   HeaderOk         size and Compress/NonBlink/512 flags as saved            *)
(*   ValidStream      runs of 1..64 cells, none crossing a row end, every row  *)
(*                    exactly w cells, only SAUCE after row h                  *)
(*   CompressedDecodesToCells / RawDecodesToCells                              *)
(*                    the independent decoder reads the source picture,        *)
(*                    INCLUDING the font page (attribute bit 3 in 512 mode)    *)
(*   EngineDecodeEq   engine decode of compressed = engine decode of raw       *)
(* Model layer (drift): engine decode = source; for buffers with ml = 1 the    *)
(* bytes equal what XBinCompressor.tla (the transcribed greedy run builder, as *)
(* it is or with the proposed font-page repair) produces.                      *)
(* Registers: 4 buffers, 5 rows, 6/7/8 rows of class exh3/exh2/random, 9 rows  *)
(* in 512-character buffers, 10 rows decoded with a wrong font page, 11 rows   *)
(* compared with the compressor model.                                         *)
EXTENDS XBinCompressor, TraceLib, FiniteSets
VARIABLES l
vars == <<l>>
Init == l = 1 /\ InitRegs

\* ---- packed cells
PCh(c) == c % 256
PFg(c) == (c \div 256) % 16
PBg(c) == (c \div 4096) % 16
PBl(c) == (c \div 65536) % 2
PPg(c) == (c \div 131072) % 2
Pack(ch, fg, bg, bl, pg) == ch + 256 * fg + 4096 * bg + 65536 * bl + 131072 * pg

SrcFlags(e) == (IF e.ice = 1 THEN FlagNonBlink ELSE 0) + (IF e.nf = 2 THEN Flag512 ELSE 0)
\* tables over the 1024 values of (fg, bg, blink, page) = code \div 256, one per flag combination; computed once by TLC
FlagSets == {0, FlagNonBlink, Flag512, FlagNonBlink + Flag512}
AttrTab == [fl \in FlagSets |-> [k \in 0..1023 |-> AttrByte(k % 16, (k \div 16) % 16, (k \div 256) % 2, (k \div 512) % 2, fl)]]
BaseTab == [fl \in FlagSets |-> [k \in 0..1023 |-> AttrByte(k % 16, (k \div 16) % 16, (k \div 256) % 2, 0, fl)]]
RepTab  == [fl \in FlagSets |-> [k \in 0..1023 |-> Representable(k % 16, (k \div 16) % 16, (k \div 256) % 2, (k \div 512) % 2, fl)]]
\* the picture the file must contain, as rows of <<character byte, attribute byte>>
ExpRowsT(e, T) == [y \in 1..e.h |-> [x \in 1..e.w |-> <<e.src[(y - 1) * e.w + x] % 256, T[e.src[(y - 1) * e.w + x] \div 256]>>] \o <<>>] \o <<>>
ExpRows(e) == ExpRowsT(e, AttrTab[SrcFlags(e)])
SrcRepT(e, T) == \A i \in 1..Len(e.src) : e.src[i] < 262144 /\ T[e.src[i] \div 256]
SrcRepresentable(e) == SrcRepT(e, RepTab[SrcFlags(e)])

\* cells as the compressor model sees them: <<ch, attribute without page, page, attribute byte written>>
ModelRowsT(e, B, T) == [y \in 1..e.h |-> [x \in 1..e.w |->
     <<e.src[(y - 1) * e.w + x] % 256, B[e.src[(y - 1) * e.w + x] \div 256], PPg(e.src[(y - 1) * e.w + x]), T[e.src[(y - 1) * e.w + x] \div 256]>>] \o <<>>] \o <<>>
ModelRows(e) == ModelRowsT(e, BaseTab[SrcFlags(e)], AttrTab[SrcFlags(e)])
\* the transcribed run builder (as it is, or with the proposed font-page repair) predicts the image bytes before offset o
PredictsImg(img, m) == Compress(m, FALSE) = img \/ Compress(m, TRUE) = img
CompressorPredicts(e, o) == e.ml = 0 \/ PredictsImg(SubSeq(e.c.img, 1, o - 1), ModelRows(e))

\* ---- small-scope classes exported by Gen_XBin
Small3Codes == {Pack(Small3Chars[i], Small3Attrs[j][1], Small3Attrs[j][2], Small3Attrs[j][3], Small3Pages[p]) : i \in 1..3, j \in 1..3, p \in 1..2}
Small2Codes == {Pack(Small2Chars[i], Small2Attrs[j][1], Small2Attrs[j][2], Small2Attrs[j][3], 0) : i \in 1..2, j \in 1..2}
InClass(e) == CASE e.k = "exh3" -> e.w \in 1..Small3MaxW /\ \A i \in 1..Len(e.src) : e.src[i] \in Small3Codes
                [] e.k = "exh2" -> e.w \in 1..Small2MaxW /\ e.nf = 1 /\ \A i \in 1..Len(e.src) : e.src[i] \in Small2Codes
                [] OTHER -> e.w \in 1..200 /\ e.h \in 1..30

\* ---- diagnostics
\* which run type covers each cell of the compressed stream (same walk as DecodeRow, recording the type instead of the cell)
RECURSIVE RowTypes(_, _, _, _)
RowTypes(b, o, w, acc) ==
  IF Len(acc) >= w \/ o > Len(b) THEN [ok |-> Len(acc) = w, why |-> "", cells |-> acc, o |-> o]
  ELSE RowTypes(b, o + 1 + RunPayload(RunType(b[o]), RunCount(b[o])), w, acc \o [i \in 1..RunCount(b[o]) |-> RunType(b[o])])
TypeRows(b, w, h) == FoldLeft(LAMBDA st, y : IF st.ok THEN RowsStep(st, RowTypes(b, st.o, w, <<>>)) ELSE st, [ok |-> TRUE, why |-> "", rows |-> <<>>, o |-> 1], Iota(h)).rows
\* run types that cover the cells in which got differs from exp (rows of cells)
BadCellsOf(exp, got) == {<<y, x>> \in (1..Len(exp)) \X (1..Len(exp[1])) : y <= Len(got) /\ x <= Len(got[y]) /\ got[y][x] # exp[y][x]}
BadRunTypesOf(exp, got, tys) == {tys[p[1]][p[2]] : p \in {q \in BadCellsOf(exp, got) : q[1] <= Len(tys) /\ q[2] <= Len(tys[q[1]])}}
OnlyBit3(a, b) == a # b /\ a \div 16 = b \div 16 /\ a % 8 = b % 8
\* rows (1-based indices) in which got differs from exp
BadRows(exp, got) == {y \in 1..Len(exp) : y > Len(got) \/ got[y] # exp[y]}
RowsKind(exp, got, ext) ==
  IF Len(got) # Len(exp) THEN "shape"
  ELSE IF \A y \in BadRows(exp, got) : Len(got[y]) = Len(exp[y]) /\
            \A x \in 1..Len(exp[y]) : got[y][x] = exp[y][x] \/ (ext /\ got[y][x][1] = exp[y][x][1] /\ OnlyBit3(got[y][x][2], exp[y][x][2]))
       THEN "fontpage-bit-only" ELSE "cells"
MinOf(S) == CHOOSE m \in S : \A n \in S : m <= n
RowsInfoAt(exp, got, e, bad, y) ==
  [kind |-> RowsKind(exp, got, e.nf = 2), runs |-> IF e.c.st = "ok" THEN BadRunTypesOf(exp, got, TypeRows(e.c.img, e.w, e.h)) ELSE {}, nf |-> e.nf, ice |-> e.ice, w |-> e.w, h |-> e.h, k |-> e.k, nbad |-> Cardinality(bad), row |-> y - 1,
   exp |-> exp[y], got |-> IF y <= Len(got) THEN got[y] ELSE <<>>]
RowsInfoB(exp, got, e, bad) == RowsInfoAt(exp, got, e, bad, MinOf(bad))
RowsInfo(exp, got, e) == RowsInfoB(exp, got, e, BadRows(exp, got))
PgOnly(a, b) == a # b /\ a % 131072 = b % 131072 /\ a \div 262144 = b \div 262144
CellsKind(a, b) ==
  IF Len(a) # Len(b) THEN "shape"
  ELSE IF \A i \in 1..Len(a) : a[i] = b[i] \/ PgOnly(a[i], b[i]) THEN "fontpage-only" ELSE "cells"
RECURSIVE FirstDiff(_, _, _)
FirstDiff(a, b, i) == IF i > Len(a) \/ i > Len(b) THEN i ELSE IF a[i] # b[i] THEN i ELSE FirstDiff(a, b, i + 1)
\* the engine's two decodes as rows (first h rows), to locate the run types of the differing cells
AsRows(cells, w, h) == [y \in 1..h |-> SubSeq(cells, (y - 1) * w + 1, y * w)] \o <<>>
CellsInfoAt(a, b, e, i) ==
  [kind |-> CellsKind(a, b),
   runs |-> IF e.c.st = "ok" /\ Len(a) >= e.w * e.h /\ Len(b) >= e.w * e.h THEN BadRunTypesOf(AsRows(b, e.w, e.h), AsRows(a, e.w, e.h), TypeRows(e.c.img, e.w, e.h)) ELSE {}, nf |-> e.nf, ice |-> e.ice, w |-> e.w, h |-> e.h, k |-> e.k, at |-> i - 1,
   a |-> IF i <= Len(a) THEN a[i] ELSE 0, b |-> IF i <= Len(b) THEN b[i] ELSE 0]
CellsInfo(a, b, e) == CellsInfoAt(a, b, e, FirstDiff(a, b, 1))

FileOk(hd, e, compressed) ==
  /\ hd.ok /\ hd.w = e.w /\ hd.h = e.h /\ HeaderLegal(hd)
  /\ HasFlag(hd.flags, FlagCompress) = compressed
  /\ HasFlag(hd.flags, FlagNonBlink) = (e.ice = 1)
  /\ HasFlag(hd.flags, Flag512) = (e.nf = 2)

\* exp = ExpRows(e); hc, hr = parsed headers; dcomp, draw = the specification's decode of the two image sections
XbBody(e, exp, okc, okr, hc, hr, dcomp, draw) ==
  /\ Bump(4) /\ BumpBy(5, e.h)
  /\ (CASE e.k = "exh3" -> BumpBy(6, e.h) [] e.k = "exh2" -> BumpBy(7, e.h) [] OTHER -> BumpBy(8, e.h))
  /\ BumpBy(9, IF e.nf = 2 THEN e.h ELSE 0)
  \* the generator stayed inside the stated domain (otherwise the harness is wrong, not the engine)
  /\ IF InClass(e) /\ SrcRepresentable(e) /\ Len(e.src) = e.w * e.h THEN TRUE ELSE Viol("TOOL", "case-outside-domain", l, [k |-> e.k, w |-> e.w, h |-> e.h])
  /\ Check(okc /\ okr /\ e.dc.st = "ok" /\ e.dr.st = "ok", "C06", "Outcome", l, [save_c |-> e.c.st, save_r |-> e.r.st, load_c |-> e.dc.st, load_r |-> e.dr.st, w |-> e.w, h |-> e.h, nf |-> e.nf])
  /\ IF okc THEN
       /\ IF hc.ok /\ e.c.mid # MidLen(hc) THEN Viol("TOOL", "driver-cut-differs-from-header", l, [mid |-> e.c.mid, hdr |-> e.c.hdr]) ELSE TRUE
       /\ Check(FileOk(hc, e, TRUE), "C06", "HeaderOk", l, [file |-> "compressed", hdr |-> e.c.hdr, w |-> e.w, h |-> e.h, nf |-> e.nf, ice |-> e.ice])
       /\ Check(StreamOk(e.c.img, dcomp), "C06", "ValidStream", l, [why |-> StreamWhyOf(e.c.img, dcomp), w |-> e.w, h |-> e.h, nf |-> e.nf, k |-> e.k, row |-> Len(dcomp.rows), o |-> dcomp.o - 1, len |-> Len(e.c.img)])
       /\ IF dcomp.ok THEN
            /\ Check(dcomp.rows = exp, "C06", "CompressedDecodesToCells", l, RowsInfo(exp, dcomp.rows, e))
            /\ (IF dcomp.rows # exp THEN BumpBy(10, Cardinality(BadRows(exp, dcomp.rows))) ELSE TRUE)
            \* model layer: the transcribed greedy run builder predicts the bytes
            /\ Expect(CompressorPredicts(e, dcomp.o), "compressor-bytes", l, [w |-> e.w, h |-> e.h, k |-> e.k])
            /\ (IF e.ml = 1 THEN BumpBy(11, e.h) ELSE TRUE)
          ELSE TRUE
     ELSE TRUE
  /\ IF okr THEN
       /\ IF hr.ok /\ e.r.mid # MidLen(hr) THEN Viol("TOOL", "driver-cut-differs-from-header", l, [mid |-> e.r.mid, hdr |-> e.r.hdr]) ELSE TRUE
       /\ Check(FileOk(hr, e, FALSE), "C06", "HeaderOk", l, [file |-> "raw", hdr |-> e.r.hdr, w |-> e.w, h |-> e.h, nf |-> e.nf, ice |-> e.ice])
       /\ Check(draw.ok /\ TrailerOk(SubSeq(e.r.img, draw.o, Len(e.r.img))) /\ draw.rows = exp, "C06", "RawDecodesToCells", l,
                IF draw.ok /\ draw.rows # exp THEN RowsInfo(exp, draw.rows, e) ELSE [kind |-> "length", w |-> e.w, h |-> e.h, len |-> Len(e.r.img)])
     ELSE TRUE
  /\ IF e.dc.st = "ok" /\ e.dr.st = "ok" THEN
       /\ Check(e.dc.w = e.dr.w /\ e.dc.h = e.dr.h /\ e.dc.cells = e.dr.cells, "C06", "EngineDecodeEq", l,
                IF e.dc.w = e.dr.w /\ e.dc.h = e.dr.h THEN CellsInfo(e.dc.cells, e.dr.cells, e) ELSE [kind |-> "size", cw |-> e.dc.w, ch |-> e.dc.h, rw |-> e.dr.w, rh |-> e.dr.h])
       \* model layer: the engine reads back what was saved (C05 judges this; here it is drift only)
       /\ Expect(e.dr.w = e.w /\ Len(e.dr.cells) >= Len(e.src) /\ SubSeq(e.dr.cells, 1, Len(e.src)) = e.src, "engine-decode-raw-vs-source", l, [w |-> e.w, h |-> e.h, nf |-> e.nf, ice |-> e.ice])
     ELSE TRUE
Xb(e) == XbBody(e, ExpRows(e), e.c.st = "ok", e.r.st = "ok", Header(e.c.hdr), Header(e.r.hdr), DecodeRows(e.c.img, 1, e.w, e.h), DecodeRaw(e.r.img, 1, e.w, e.h))

\* the default save path (the colour optimiser runs before the writer): compressed and uncompressed decode to the same cells
Xbd(e) ==
  /\ Bump(10)
  /\ Check(e.dc.st = "ok" /\ e.dr.st = "ok", "C06", "Outcome", l, [save_c |-> "default-path", save_r |-> "default-path", load_c |-> e.dc.st, load_r |-> e.dr.st, w |-> e.w, h |-> e.h, nf |-> e.nf])
  /\ IF e.dc.st = "ok" /\ e.dr.st = "ok"
     THEN Check(e.dc.w = e.dr.w /\ e.dc.h = e.dr.h /\ e.dc.cells = e.dr.cells, "C06", "EngineDecodeEq", l,
                [kind |-> "default-save-path", w |-> e.w, h |-> e.h, nf |-> e.nf, ice |-> e.ice, k |-> e.k, runs |-> {}, at |-> 0, a |-> 0, b |-> 0])
     ELSE TRUE
Step(e) == CASE e.ev = "xb" -> Xb(e)
            [] e.ev = "xbd" -> Xbd(e)
            [] e.ev = "reset" -> TRUE
            [] OTHER -> Viol("TOOL", "unknown-event", l, e.ev)
Next ==
  /\ l <= Len(Rec)
  /\ Bump(3)
  /\ Step(Rec[l])
  /\ l' = l + 1
Spec == Init /\ [][Next]_vars
=============================================================================
