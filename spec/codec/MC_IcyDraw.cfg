SPECIFICATION Spec
CONSTANTS MaxW = 3
          MaxH = 2
          MaxBytes = 6
          WithGeo = TRUE
INVARIANT RoundTrip
INVARIANT RowFraming
INVARIANT ContinuationUsed
INVARIANT RowsTotal
INVARIANT LayerTotal
INVARIANT GeoRoundTrip
CHECK_DEADLOCK FALSE
