SPECIFICATION Spec
CONSTANT Full16 = TRUE
INVARIANT Table16
INVARIANT Table32
CHECK_DEADLOCK FALSE
