SPECIFICATION Spec
CONSTANTS RunBase = 4
          Chars = {65, 66}
          Attrs = {1, 2}
          Pages = {0, 1}
          W = 5
INVARIANT StreamValid
INVARIANT SoundModuloPage
INVARIANT SoundOnePage
INVARIANT FixedSound
CHECK_DEADLOCK FALSE
