SPECIFICATION Spec
CONSTANTS Fmt = "tnd"
          MaxW = 2
          MaxH = 2
          FontLen = 4
          AdfPalEntries = 64
          AdfWidth = 2
INVARIANT RoundTrip
INVARIANT TablesBack
INVARIANT PrefixTotal
CHECK_DEADLOCK FALSE
