SPECIFICATION Spec
CONSTANT RunBase = 64
POSTCONDITION Post
CHECK_DEADLOCK FALSE
