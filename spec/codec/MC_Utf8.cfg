SPECIFICATION Spec
INVARIANT RoundTrip
INVARIANT PointsOk
CHECK_DEADLOCK FALSE
