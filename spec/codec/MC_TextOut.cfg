SPECIFICATION Spec
CONSTANTS MaxW = 4
          AvtGoto = "spec"
INVARIANT ReaderTotal
INVARIANT RoundTrip
CHECK_DEADLOCK FALSE
