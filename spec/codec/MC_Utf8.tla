------------------------------- MODULE MC_Utf8 -------------------------------
(* R1 for C10: on the definition side, well-formedness and scalar-ness agree:  *)
(* every byte string up to length 4 over the boundary bytes is well-formed     *)
(* iff it is the encoding of a sequence of scalar values; every boundary code  *)
(* point encodes to a well-formed string iff it is a scalar value.             *)
EXTENDS Utf8, TLC
VARIABLES s
Bytes == {0, 127, 128, 143, 144, 159, 160, 191, 192, 193, 194, 223, 224, 225, 236, 237, 238, 239, 240, 241, 243, 244, 245, 255}
Points == {0, 127, 128, 2047, 2048, 55295, 55296, 56319, 56320, 57343, 57344, 65535, 65536, 1114111}
Init == s = <<>>
Next == Len(s) < 4 /\ \E b \in Bytes : s' = Append(s, b)
Spec == Init /\ [][Next]_s
RECURSIVE EncodeAll(_)
EncodeAll(cs) == IF cs = <<>> THEN <<>> ELSE Encode(Head(cs)) \o EncodeAll(Tail(cs))
RoundTrip == WellFormed(s) => (LET d == DecodeFrom(s, 1) IN (\A i \in 1..Len(d) : Scalar(d[i])) /\ EncodeAll(d) = s)
PointsOk == \A c \in Points : Scalar(c) <=> (WellFormed(Encode(c)) /\ DecodeFrom(Encode(c), 1) = <<c>>)
=============================================================================
