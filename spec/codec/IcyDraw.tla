------------------------------ MODULE IcyDraw ------------------------------
(***************************************************************************)
(* The native IcyDraw (.icy) document format, written from                 *)
(* /repo/doc/FileFormats/ICEDFormat.md (C07).                              *)
(*                                                                         *)
(* A file is a PNG whose zTXt chunks carry base64 payloads.  PNG framing,  *)
(* zlib and base64 are NOT modelled: the harness unwraps them and hands    *)
(* this module the chunk list  << [kw |-> keyword code points,             *)
(* d |-> payload bytes], ... >> in file order.  Keywords: ICED (header),   *)
(* PALETTE, SAUCE, FONT_<slot>, LAYER_<n>, LAYER_<n>~<k> (continuation of  *)
(* the cell data of layer n), END.                                         *)
(*                                                                         *)
(* One operator per record of the format:                                  *)
(*   DecodeHeader, DecodeCell, DecodeRow, DecodeRows, DecodeLayer,         *)
(*   ContinueLayer, DecodeIcePalette, DecodeSauce, IcyFontChunk (Fonts),   *)
(*   SpecDecode (the chunk loop);                                          *)
(* and the writer's side EncodeCell / EncodeRow / EncodeLayerChunks used   *)
(* by MC_IcyDraw to show  Decode o Encode = id  for every small layer.     *)
(* Every decoder is total (ok \in BOOLEAN on any input).                   *)
(*                                                                         *)
(* Values.  A cell is <<>> (invisible) or the 8-tuple                      *)
(*   <<chHi, chLo, fgHi, fgLo, bgHi, bgLo, attr, fontPage>>                *)
(* (32-bit quantities as 16-bit halves: colours may have bit 31 set -      *)
(* TextAttribute::TRANSPARENT_COLOR - and TLC integers are 32-bit).        *)
(* A row is the sequence of its cells up to the LAST VISIBLE one (cells    *)
(* behind it are invisible); a layer holds exactly `h` rows.               *)
(***************************************************************************)
EXTENDS Fonts, TLC, SequencesExt

\* attribute word: low bits are the text attribute flags, the two top bits are used by the file format
SHORT_DATA == 16384           \* 0x4000: char / fg / bg / font page follow as one byte each
INVISIBLE == 32768            \* 0x8000: invisible cell, nothing follows
END_OF_ROW == 49152           \* 0xC000: rest of the row is invisible

\* layer flag bits.  ICEDFormat.md lists "Bit 2: edit_locked, Bit 3: position_locked"; the implementation (writer AND reader)
\* uses 2 for the position lock and 4 for the edit lock.  The model follows the implementation, the discrepancy is reported.
F_VISIBLE == 1   F_POS_LOCK == 2   F_EDIT_LOCK == 4   F_HAS_ALPHA == 8   F_ALPHA_LOCKED == 16
Bit(v, m) == IF (v \div m) % 2 = 1 THEN 1 ELSE 0

Invisible == <<>>
IsVisible(c) == c # <<>>
IsShort(c) == c[1] = 0 /\ c[2] <= 255 /\ c[3] = 0 /\ c[4] <= 255 /\ c[5] = 0 /\ c[6] <= 255 /\ c[8] <= 255

\* ------------------------------------------------------------------------------------------------ cells and rows
\* one cell record at offset o of the data d: [k |-> "err" | "eol" | "cell", c |-> cell, o |-> offset behind the record]
DecodeCell(d, o) ==
  IF o + 2 > Len(d) THEN [k |-> "err", c |-> <<>>, o |-> o]
  ELSE LET a == LE16(d, o)
           short == (a \div SHORT_DATA) % 2 = 1
           attr == IF short THEN a - SHORT_DATA ELSE a IN
       IF a = END_OF_ROW THEN [k |-> "eol", c |-> <<>>, o |-> o + 2]
       ELSE IF attr >= INVISIBLE THEN [k |-> "cell", c |-> Invisible, o |-> o + 2]
       ELSE IF short
         THEN (IF o + 6 > Len(d) THEN [k |-> "err", c |-> <<>>, o |-> o]
               ELSE [k |-> "cell", c |-> <<0, d[o + 3], 0, d[o + 4], 0, d[o + 5], attr, d[o + 6]>>, o |-> o + 6])
         ELSE (IF o + 16 > Len(d) THEN [k |-> "err", c |-> <<>>, o |-> o]
               ELSE [k |-> "cell", o |-> o + 16,
                     c |-> <<LE16(d, o + 4), LE16(d, o + 2), LE16(d, o + 8), LE16(d, o + 6), LE16(d, o + 12), LE16(d, o + 10), attr, LE16(d, o + 14)>>])

\* one row of a layer of width w starting at offset o: at most w cell records; an END_OF_ROW marker ends the row early;
\* a row of full width has NO terminator.  State of the scan: acc = cells read so far, lv = index of the last visible one.
\* (Loops are written as FoldLeft over the positions: TLC evaluates a fold iteratively, while the cost of a RECURSIVE
\* operator grows with the recursion depth.)
RowStep(d, st) ==
  IF st.done THEN st
  ELSE LET r == DecodeCell(d, st.o) IN
       IF r.k = "err" THEN [st EXCEPT !.ok = FALSE, !.done = TRUE]
       ELSE IF r.k = "eol" THEN [st EXCEPT !.o = r.o, !.done = TRUE]
       ELSE [st EXCEPT !.o = r.o, !.acc = Append(@, r.c), !.lv = IF IsVisible(r.c) THEN Len(st.acc) + 1 ELSE @]
DecodeRow(d, o, w) ==
  LET st == FoldLeft(LAMBDA t, x : RowStep(d, t), [ok |-> TRUE, done |-> FALSE, o |-> o, acc |-> <<>>, lv |-> 0], [x \in 1..w |-> x]) IN
  [ok |-> st.ok, row |-> SubSeq(st.acc, 1, st.lv), o |-> st.o]

\* rows of a layer (w x h) from offset o, appended to `rows`, until h rows are complete or the data is exhausted (then the
\* remaining rows follow in a continuation chunk, or are empty)
RowsStep(d, w, st) ==
  IF st.done \/ st.o >= Len(d) THEN [st EXCEPT !.done = TRUE]
  ELSE LET r == DecodeRow(d, st.o, w) IN
       IF ~r.ok THEN [st EXCEPT !.ok = FALSE, !.done = TRUE] ELSE [st EXCEPT !.o = r.o, !.rows = Append(@, r.row)]
DecodeRows(d, o, w, h, rows) ==
  LET st == FoldLeft(LAMBDA t, y : RowsStep(d, w, t), [ok |-> TRUE, done |-> FALSE, o |-> o, rows |-> rows], [y \in 1..(IF h > Len(rows) THEN h - Len(rows) ELSE 0) |-> y]) IN
  [ok |-> st.ok, rows |-> st.rows, o |-> st.o]

PadRows(rows, h) == IF Len(rows) >= h THEN rows ELSE rows \o [i \in 1..(h - Len(rows)) |-> <<>>]

\* ------------------------------------------------------------------------------------------------ layer record
\* title length u32, title (UTF-8), role u8 (0 normal, 1 image), 4 unused, mode u8 (0 normal, 1 chars, 2 attributes),
\* colour RGBA (A = 0: no colour tag), flags u32, transparency u8, x i32, y i32, width u32, height u32,
\* default font page u16, data length u64, data
BadLayer(why) == [ok |-> FALSE, why |-> why]
DecodeLayer(b) ==
  IF Len(b) < 4 \/ ~IsSmall(LE32(b, 0)) \/ 4 + Val32(LE32(b, 0)) + 41 > Len(b) THEN BadLayer("layer-header")
  ELSE LET tl == Val32(LE32(b, 0))
           p == 4 + tl                    \* offset of the role byte
           role == b[p + 1]
           mode == b[p + 6]
           rgba == Slice(b, p + 6, 4)
           flags == LE32(b, p + 10)
           tr == b[p + 15]
           x == SVal32(LE32(b, p + 15))
           y == SVal32(LE32(b, p + 19))
           w32 == LE32(b, p + 23)
           h32 == LE32(b, p + 27)
           fp == LE16(b, p + 31)
           dlLo == LE32(b, p + 33)
           dlHi == LE32(b, p + 37)
           o0 == p + 41 IN
       IF mode > 2 THEN BadLayer("layer-mode")
       ELSE IF ~IsSmall(w32) \/ ~IsSmall(h32) \/ dlHi # <<0, 0>> \/ ~IsSmall(dlLo) THEN BadLayer("layer-range")
       ELSE IF o0 + Val32(dlLo) > Len(b) THEN BadLayer("layer-data-length")
       ELSE
         LET w == Val32(w32)   h == Val32(h32)   d == Slice(b, o0, Val32(dlLo))
             base == [ok |-> TRUE, why |-> "", title |-> Slice(b, 4, tl), role |-> IF role = 1 THEN 1 ELSE 0, mode |-> mode,
                      color |-> IF rgba[4] = 0 THEN <<>> ELSE SubSeq(rgba, 1, 3),
                      vis |-> Bit(flags[2], F_VISIBLE), lock |-> Bit(flags[2], F_EDIT_LOCK), plock |-> Bit(flags[2], F_POS_LOCK),
                      alpha |-> Bit(flags[2], F_HAS_ALPHA), alock |-> Bit(flags[2], F_ALPHA_LOCKED),
                      tr |-> tr, x |-> x, y |-> y, w |-> w, h |-> h, fp |-> fp] IN
         IF role = 1
           THEN \* image layer: width, height, vertical scale, horizontal scale (u32 each), RGBA data
                IF Len(d) < 16 \/ \E k \in 0..3 : ~IsSmall(LE32(d, 4 * k)) THEN BadLayer("image-header")
                ELSE base @@ [rows |-> <<>>, nrows |-> 0,
                              img |-> <<Val32(LE32(d, 0)), Val32(LE32(d, 4)), Val32(LE32(d, 8)), Val32(LE32(d, 12)), SubSeq(d, 17, Len(d))>>]
           ELSE LET r == DecodeRows(d, 0, w, h, <<>>) IN
                IF ~r.ok THEN BadLayer("cell-data") ELSE base @@ [rows |-> r.rows, nrows |-> Len(r.rows), img |-> <<>>]

\* LAYER_<n>~<k>: the payload continues the cell data (rows) - or the image bytes - of layer n where the previous chunk stopped
ContinueLayer(layer, d) ==
  IF layer.role = 1 THEN [layer EXCEPT !.img = [layer.img EXCEPT ![5] = @ \o d]]
  ELSE LET r == DecodeRows(d, 0, layer.w, layer.h, layer.rows) IN
       IF ~r.ok THEN [layer EXCEPT !.ok = FALSE, !.why = "cell-data"] ELSE [layer EXCEPT !.rows = r.rows, !.nrows = Len(r.rows)]

\* the value a finished layer denotes: exactly h rows
FinishLayer(layer) ==
  [title |-> layer.title, role |-> layer.role, mode |-> layer.mode, color |-> layer.color, vis |-> layer.vis, lock |-> layer.lock,
   plock |-> layer.plock, alpha |-> layer.alpha, alock |-> layer.alock, tr |-> layer.tr, x |-> layer.x, y |-> layer.y,
   w |-> layer.w, h |-> layer.h, fp |-> layer.fp, rows |-> IF layer.role = 1 THEN <<>> ELSE PadRows(layer.rows, layer.h), img |-> layer.img]

\* ------------------------------------------------------------------------------------------------ writer's side
LE16Bytes(v) == <<v % 256, v \div 256>>
EncodeCell(c) ==
  IF ~IsVisible(c) THEN LE16Bytes(INVISIBLE)
  ELSE IF IsShort(c) THEN LE16Bytes(c[7] + SHORT_DATA) \o <<c[2], c[4], c[6], c[8]>>
  ELSE LE16Bytes(c[7]) \o LE16Bytes(c[2]) \o LE16Bytes(c[1]) \o LE16Bytes(c[4]) \o LE16Bytes(c[3]) \o LE16Bytes(c[6]) \o LE16Bytes(c[5]) \o LE16Bytes(c[8])
RECURSIVE Concat(_)
Concat(ss) == IF ss = <<>> THEN <<>> ELSE Head(ss) \o Concat(Tail(ss))
\* row = cells up to the last visible one
EncodeRow(row, w) == Concat([i \in 1..Len(row) |-> EncodeCell(row[i])]) \o (IF Len(row) < w THEN LE16Bytes(END_OF_ROW) ELSE <<>>)

U32Bytes(v) == <<v % 256, (v \div 256) % 256, (v \div 65536) % 256, v \div 16777216>>
I32Bytes(v) == IF v >= 0 THEN U32Bytes(v) ELSE LET m == (0 - v) - 1 IN LE16Bytes(65535 - (m % 65536)) \o LE16Bytes(65535 - (m \div 65536))   \* two's complement
LayerHeader(l, dataLen) ==
  U32Bytes(Len(l.title)) \o l.title \o <<l.role, 0, 0, 0, 0, l.mode>> \o (IF l.color = <<>> THEN <<0, 0, 0, 0>> ELSE l.color \o <<255>>)
  \o U32Bytes(l.vis * F_VISIBLE + l.lock * F_EDIT_LOCK + l.plock * F_POS_LOCK + l.alpha * F_HAS_ALPHA + l.alock * F_ALPHA_LOCKED)
  \o <<l.tr>> \o I32Bytes(l.x) \o I32Bytes(l.y) \o U32Bytes(l.w) \o U32Bytes(l.h) \o LE16Bytes(l.fp) \o U32Bytes(dataLen) \o <<0, 0, 0, 0>>

\* rows y.. of layer l as long as the chunk under construction stays within `max` bytes (the writer starts a new zTXt
\* chunk when the next row could exceed the limit: current length + 16 * width > max)
RECURSIVE TakeRows(_, _, _, _, _)
TakeRows(l, y, cur, acc, max) ==
  IF y > l.h \/ cur + Len(acc) + 16 * l.w > max THEN [data |-> acc, y |-> y]
  ELSE TakeRows(l, y + 1, cur, acc \o EncodeRow(l.rows[y], l.w), max)
RECURSIVE MoreChunks(_, _, _)
MoreChunks(l, y, max) ==
  IF y > l.h THEN <<>>
  ELSE LET t == TakeRows(l, y, 0, <<>>, max) IN
       IF t.y = y THEN <<>>          \* a single row does not fit: the writer cannot make progress (max too small for this width)
       ELSE <<t.data>> \o MoreChunks(l, t.y, max)
\* << main chunk payload, continuation payloads ... >>
EncodeLayerChunks(l, max) ==
  IF l.role = 1
    THEN \* image layer: one chunk (the split of images above `max` bytes is not modelled)
         <<LayerHeader(l, 16 + Len(l.img[5])) \o U32Bytes(l.img[1]) \o U32Bytes(l.img[2]) \o U32Bytes(l.img[3]) \o U32Bytes(l.img[4]) \o l.img[5]>>
    ELSE LET hl == Len(LayerHeader(l, 0))
             t == TakeRows(l, 1, hl, <<>>, max) IN
         <<LayerHeader(l, Len(t.data)) \o t.data>> \o MoreChunks(l, t.y, max)

ContinueAll(layer, chunks) == FoldLeft(LAMBDA l, ch : IF l.ok THEN ContinueLayer(l, ch) ELSE l, layer, Tail(chunks))
DecodeLayerChunks(chunks) ==
  LET first == DecodeLayer(chunks[1]) IN
  IF ~first.ok THEN first ELSE LET l == ContinueAll(first, chunks) IN IF l.ok THEN [ok |-> TRUE, layer |-> FinishLayer(l)] ELSE l

\* ------------------------------------------------------------------------------------------------ header, palette, SAUCE
\* ICED: version u16, unused u32, buffer type u16, ice mode u8, palette mode u8, font mode u8, width u32, height u32 (19 bytes)
DecodeHeader(b) ==
  IF Len(b) # 19 \/ ~IsSmall(LE32(b, 11)) \/ ~IsSmall(LE32(b, 15)) THEN [ok |-> FALSE]
  ELSE [ok |-> TRUE, ver |-> LE16(b, 0), bt |-> LE16(b, 6), ice |-> b[9], pm |-> b[10], fm |-> b[11], w |-> Val32(LE32(b, 11)), h |-> Val32(LE32(b, 15))]
EncodeHeader(h) == <<0, 0, 0, 0, 0, 0>> \o LE16Bytes(h.bt) \o <<h.ice, h.pm, h.fm>> \o U32Bytes(h.w) \o U32Bytes(h.h)

Dos16 == << <<0,0,0>>, <<0,0,170>>, <<0,170,0>>, <<0,170,170>>, <<170,0,0>>, <<170,0,170>>, <<170,85,0>>, <<170,170,170>>,
            <<85,85,85>>, <<85,85,255>>, <<85,255,85>>, <<85,255,255>>, <<255,85,85>>, <<255,85,255>>, <<255,255,85>>, <<255,255,255>> >>

\* PALETTE: "ICE Palette" text: first line the identification, `#...` lines are metadata, every other line is a colour
\* `rrggbb` in hexadecimal.  Lines end with LF.
HexVal(c) == IF c \in 48..57 THEN c - 48 ELSE IF c \in 97..102 THEN c - 87 ELSE IF c \in 65..70 THEN c - 55 ELSE -1
IsColourLine(b, i, e) == e - i >= 6 /\ b[i] # 35 /\ \A k \in 0..5 : HexVal(b[i + k]) >= 0       \* the line is b[i .. e-1]
ColourAt(b, i) == <<16 * HexVal(b[i]) + HexVal(b[i + 1]), 16 * HexVal(b[i + 2]) + HexVal(b[i + 3]), 16 * HexVal(b[i + 4]) + HexVal(b[i + 5])>>
IcePaletteId == <<73, 67, 69, 32, 80, 97, 108, 101, 116, 116, 101>>            \* "ICE Palette"
\* scan state: start = index of the first byte of the current line, n = number of complete lines so far
PalLine(b, st, e) ==       \* the line b[st.start .. e-1] is complete
  IF st.n = 0 THEN [st EXCEPT !.ok = SubSeq(b, 1, e - 1) = IcePaletteId, !.n = 1, !.start = e + 1]
  ELSE [st EXCEPT !.n = @ + 1, !.start = e + 1, !.colors = IF IsColourLine(b, st.start, e) THEN Append(@, ColourAt(b, st.start)) ELSE @]
DecodeIcePalette(b) ==
  LET st == FoldLeft(LAMBDA t, i : IF b[i] = 10 THEN PalLine(b, t, i) ELSE t, [ok |-> FALSE, n |-> 0, start |-> 1, colors |-> <<>>], [i \in 1..Len(b) |-> i])
      fin == IF st.start <= Len(b) THEN PalLine(b, st, Len(b) + 1) ELSE st IN      \* last line without LF
  [ok |-> fin.ok, colors |-> IF fin.ok THEN fin.colors ELSE <<>>]

\* SAUCE chunk: EOF (1A), optional comment block "COMNT" + n * 64, the 128-byte record "SAUCE" "00" title[35] author[20]
\* group[20] date[8] filesize u32 datatype u8 filetype u8 tinfo1..4 u16 comments u8 tflags u8 tinfos[22]
\* (SAUCE rev. 5).  Carried metadata: the three texts and the comment lines without their padding, and for
\* Character/ANSi records the letter-spacing (tflags bits 1-2 = 10b) and aspect-ratio (bits 3-4 = 01b) requests.
Trim(s) == SubSeq(s, 1, FoldLeft(LAMBDA m, i : IF s[i] \notin {0, 32} THEN i ELSE m, 0, [i \in 1..Len(s) |-> i]))      \* without trailing blanks / NULs
UntilNul(s) == SubSeq(s, 1, FoldLeft(LAMBDA m, i : IF s[i] = 0 /\ i <= m THEN i - 1 ELSE m, Len(s), [i \in 1..Len(s) |-> i]))  \* up to the first NUL
SauceId == <<83, 65, 85, 67, 69>>     ComntId == <<67, 79, 77, 78, 84>>
DecodeSauce(b) ==
  IF Len(b) < 128 \/ Slice(b, Len(b) - 128, 5) # SauceId THEN [ok |-> FALSE]
  ELSE LET r == Len(b) - 128            \* offset of the record
           nc == b[r + 105]   tf == b[r + 106]
           cs == r - 64 * nc - 5 IN     \* offset of the comment block
       IF nc > 0 /\ (cs < 0 \/ Slice(b, cs, 5) # ComntId) THEN [ok |-> FALSE]
       ELSE [ok |-> TRUE, title |-> Trim(Slice(b, r + 7, 35)), author |-> Trim(Slice(b, r + 42, 20)), group |-> Trim(Slice(b, r + 62, 20)),
             comments |-> [k \in 1..nc |-> Trim(UntilNul(Slice(b, cs + 5 + 64 * (k - 1), 64)))],
             ls |-> IF (tf \div 2) % 4 = 2 THEN 1 ELSE 0, ar |-> IF (tf \div 8) % 4 = 1 THEN 1 ELSE 0]

\* ------------------------------------------------------------------------------------------------ chunk keywords
RECURSIVE ParseNum(_, _, _, _)
ParseNum(s, i, acc, nd) == IF i <= Len(s) /\ s[i] \in 48..57 /\ nd < 9 THEN ParseNum(s, i + 1, acc * 10 + s[i] - 48, nd + 1) ELSE [v |-> acc, i |-> i, nd |-> nd]
StartsWith(s, p) == Len(s) >= Len(p) /\ SubSeq(s, 1, Len(p)) = p
KwFont == <<70, 79, 78, 84, 95>>     KwLayer == <<76, 65, 89, 69, 82, 95>>
ParseKeyword(kw) ==
  IF kw = <<73, 67, 69, 68>> THEN [k |-> "ICED", n |-> 0, c |-> 0]
  ELSE IF kw = <<69, 78, 68>> THEN [k |-> "END", n |-> 0, c |-> 0]
  ELSE IF kw = SauceId THEN [k |-> "SAUCE", n |-> 0, c |-> 0]
  ELSE IF kw = <<80, 65, 76, 69, 84, 84, 69>> THEN [k |-> "PALETTE", n |-> 0, c |-> 0]
  ELSE IF StartsWith(kw, KwFont) THEN
         LET p == ParseNum(kw, 6, 0, 0) IN IF p.nd > 0 /\ p.i > Len(kw) THEN [k |-> "FONT", n |-> p.v, c |-> 0] ELSE [k |-> "BAD", n |-> 0, c |-> 0]
  ELSE IF StartsWith(kw, KwLayer) THEN
         LET p == ParseNum(kw, 7, 0, 0) IN
         IF p.nd = 0 THEN [k |-> "BAD", n |-> 0, c |-> 0]
         ELSE IF p.i > Len(kw) THEN [k |-> "LAYER", n |-> p.v, c |-> 0]
         ELSE IF kw[p.i] # 126 THEN [k |-> "BAD", n |-> 0, c |-> 0]
         ELSE LET q == ParseNum(kw, p.i + 1, 0, 0) IN
              IF q.nd > 0 /\ q.i > Len(kw) THEN [k |-> "CONT", n |-> p.v, c |-> q.v] ELSE [k |-> "BAD", n |-> 0, c |-> 0]
  ELSE [k |-> "OTHER", n |-> 0, c |-> 0]

\* ------------------------------------------------------------------------------------------------ the chunk loop
\* fonts: sequence of [slot, name, w, h, n, g] kept sorted by slot; a later FONT_<slot> replaces an earlier one
RECURSIVE PutFont(_, _, _)
PutFont(fonts, f, i) ==
  IF i > Len(fonts) THEN Append(fonts, f)
  ELSE IF fonts[i].slot = f.slot THEN [fonts EXCEPT ![i] = f]
  ELSE IF fonts[i].slot > f.slot THEN SubSeq(fonts, 1, i - 1) \o <<f>> \o SubSeq(fonts, i, Len(fonts))
  ELSE PutFont(fonts, f, i + 1)

InitDoc == [ok |-> TRUE, why |-> "", done |-> FALSE, hdr |-> FALSE, w |-> 0, h |-> 0, bt |-> 0, ice |-> 0, pm |-> 0, fm |-> 0,
            pal |-> Dos16, sauce |-> <<>>, fonts |-> <<>>, layers |-> <<>>]
Fail(st, why) == [st EXCEPT !.ok = FALSE, !.why = why]
ChunkStep(st, ch) ==
  LET k == ParseKeyword(ch.kw) IN
  CASE k.k = "END" -> [st EXCEPT !.done = TRUE]
    [] k.k = "ICED" -> LET h == DecodeHeader(ch.d) IN
                       IF ~h.ok THEN Fail(st, "header") ELSE [st EXCEPT !.hdr = TRUE, !.w = h.w, !.h = h.h, !.bt = h.bt, !.ice = h.ice, !.pm = h.pm, !.fm = h.fm]
    [] k.k = "PALETTE" -> LET p == DecodeIcePalette(ch.d) IN IF ~p.ok THEN Fail(st, "palette") ELSE [st EXCEPT !.pal = p.colors]
    [] k.k = "SAUCE" -> LET s == DecodeSauce(ch.d) IN
                        IF ~s.ok THEN st     \* a chunk without a SAUCE record carries no metadata
                        ELSE [st EXCEPT !.sauce = <<[title |-> s.title, author |-> s.author, group |-> s.group, comments |-> s.comments, ls |-> s.ls, ar |-> s.ar]>>]
    [] k.k = "FONT" -> LET f == IcyFontChunk(ch.d) IN
                       IF ~f.ok THEN Fail(st, "font")
                       ELSE [st EXCEPT !.fonts = PutFont(@, [slot |-> k.n, name |-> f.name, w |-> f.font.w, h |-> f.font.h, n |-> f.font.n, g |-> f.font.g], 1)]
    [] k.k = "LAYER" -> LET l == DecodeLayer(ch.d) IN IF ~l.ok THEN Fail(st, l.why) ELSE [st EXCEPT !.layers = Append(@, l)]
    [] k.k = "CONT" -> IF k.n >= Len(st.layers) THEN Fail(st, "continuation-without-layer")
                       ELSE LET l == ContinueLayer(st.layers[k.n + 1], ch.d) IN IF ~l.ok THEN Fail(st, l.why) ELSE [st EXCEPT !.layers[k.n + 1] = l]
    [] OTHER -> st        \* unknown keywords are skipped ("try to be extensible")
ChunkLoop(chunks, st0) == FoldLeft(LAMBDA st, ch : IF ~st.ok \/ st.done THEN st ELSE ChunkStep(st, ch), st0, chunks)

\* the document a chunk list denotes
SpecDecode(chunks) ==
  LET st == ChunkLoop(chunks, InitDoc) IN
  IF ~st.ok THEN [ok |-> FALSE, why |-> st.why]
  ELSE IF ~st.hdr THEN [ok |-> FALSE, why |-> "no-header"]
  ELSE [ok |-> TRUE, why |-> "",
        doc |-> [w |-> st.w, h |-> st.h, bt |-> st.bt, ice |-> st.ice, pm |-> st.pm, fm |-> st.fm, pal |-> st.pal, sauce |-> st.sauce,
                 fonts |-> st.fonts, layers |-> [i \in 1..Len(st.layers) |-> FinishLayer(st.layers[i])]]]

\* ------------------------------------------------------------------------------------------------ the property (C07)
\* "reproduces the document exactly", field by field as the property lists them.  Both arguments are projections of
\* documents: invisible cells are <<>> whatever their other fields, rows end at their last visible cell, fonts are sorted
\* by slot.  The image bytes of image layers (`img`) are not listed by the property and not compared here.
LayerFields == {"title", "role", "mode", "color", "vis", "lock", "plock", "alpha", "alock", "tr", "x", "y", "w", "h", "fp", "rows"}
DocFields == {"w", "h", "bt", "ice", "pm", "fm", "pal", "fonts", "sauce"}
LayerDiff(a, b) == {f \in LayerFields : a[f] # b[f]}
DocDiff(a, b) ==
  {f \in DocFields : a[f] # b[f]}
  \cup (IF Len(a.layers) # Len(b.layers) THEN {"layers"} ELSE UNION {LayerDiff(a.layers[i], b.layers[i]) : i \in 1..Len(a.layers)})
DocEq(a, b) == DocDiff(a, b) = {}
=============================================================================
