-------------------------------- MODULE Attr --------------------------------
(***************************************************************************)
(* DOS text attribute byte <-> (foreground, background, blink) under the    *)
(* three colour modes of icy_engine (TextAttribute::from_u8 / as_u8), C18.  *)
(*   mode 0 = Unlimited, 1 = Blink  : bit 7 is blink, background = bits 4-6 *)
(*   mode 2 = Ice                  : background = bits 4-7, no blink        *)
(* Bold is not part of the byte: a bold attribute with foreground < 8 is    *)
(* written as the bright colour (fg + 8) and decodes to that colour.        *)
(***************************************************************************)
EXTENDS Naturals
Modes == 0..2
Decode(b, m) == IF m = 2 THEN [fg |-> b % 16, bg |-> b \div 16, bl |-> 0]
                ELSE [fg |-> b % 16, bg |-> (b \div 16) % 8, bl |-> b \div 128]
ShownFg(fg, bo) == IF bo = 1 /\ fg < 8 THEN fg + 8 ELSE fg
Encode(fg, bg, bl, bo, m) ==
  LET f == ShownFg(fg % 16, bo) IN
  IF m = 2 THEN f + 16 * (bg % 16)
  ELSE f + 16 * (((bg % 8) + 8 * bl) % 16)
\* what a mode can express
Expressible(fg, bg, bl, bo, m) ==
  /\ fg \in 0..15 /\ bo \in 0..1
  /\ IF m = 2 THEN bg \in 0..15 /\ bl = 0 ELSE bg \in 0..7 /\ bl \in 0..1
\* C18 identities
DecEnc(b, m) == LET a == Decode(b, m) IN Encode(a.fg, a.bg, a.bl, 0, m) = b
EncDec(fg, bg, bl, bo, m) ==
  Expressible(fg, bg, bl, bo, m) =>
     LET d == Decode(Encode(fg, bg, bl, bo, m), m) IN d.fg = ShownFg(fg, bo) /\ d.bg = bg /\ d.bl = bl
=============================================================================
