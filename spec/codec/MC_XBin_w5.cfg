SPECIFICATION Spec
CONSTANTS RunBase = 4
          Chars = {0, 1}
          Attrs = {2, 3}
          W = 5
          H = 1
          JunkLen = 4
INVARIANT EncoderSound
INVARIANT CrossingRejected
INVARIANT HeadersInRange
CHECK_DEADLOCK FALSE
