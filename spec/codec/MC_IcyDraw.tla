----------------------------- MODULE MC_IcyDraw -----------------------------
(* R1 for C07: exhaustive small-scope check of the IcyDraw layer codec, and   *)
(* (with Gen_IcyDraw.cfg) the case table exported to the Rust driver (R2).    *)
(*                                                                           *)
(* The state graph IS the case space:                                        *)
(*  kind "grid":  a w x h layer is filled cell by cell (row-major) from the   *)
(*                cell alphabet Classes; every complete grid is a layer;      *)
(*  kind "bytes": a byte string grows byte by byte over ByteAlphabet (the     *)
(*                bytes that matter to the cell grammar) - decoder totality;  *)
(*  kind "geo":   layer geometry x flag combinations (initial states only).   *)
EXTENDS IcyDraw, Json
CONSTANTS MaxW, MaxH, MaxBytes, WithGeo
VARIABLE s
vars == <<s>>

Classes == {"I", "S", "C", "F", "T", "P"}
CellOf(c) == CASE c = "I" -> Invisible
               [] c = "S" -> <<0, 65, 0, 7, 0, 1, 9, 0>>            \* short: everything < 256; attr = bold + blink
               [] c = "C" -> <<1, 62976, 0, 7, 0, 0, 0, 0>>         \* long: U+1F600
               [] c = "F" -> <<0, 66, 0, 256, 0, 2, 1, 0>>          \* long: foreground index 256
               [] c = "T" -> <<0, 223, 32768, 0, 0, 3, 0, 0>>       \* long: TRANSPARENT_COLOR (1 << 31) as foreground
               [] c = "P" -> <<0, 67, 0, 1, 0, 0, 512, 256>>        \* long: font page 256; attr = overline
ByteAlphabet == {0, 1, 64, 128, 192}
Maxes == {60, 100, 3000000}          \* zTXt chunk limit: tiny values force continuation chunks, 3 000 000 is the real one

Geos == [w : {0, 1, 5}, h : {0, 1, 4}, x : {-50, 0, 50}, y : {-50, 0, 50}, flags : 0..31, mode : 0..2, role : 0..1, tag : 0..1]

Init == \/ \E w \in 0..MaxW, h \in 0..MaxH : s = [kind |-> "grid", w |-> w, h |-> h, cells |-> <<>>]
        \/ s = [kind |-> "bytes", bytes |-> <<>>]
        \/ WithGeo /\ \E g \in Geos : s = [kind |-> "geo", g |-> g]
Next == \/ s.kind = "grid" /\ Len(s.cells) < s.w * s.h /\ \E c \in Classes : s' = [s EXCEPT !.cells = Append(@, c)]
        \/ s.kind = "bytes" /\ Len(s.bytes) < MaxBytes /\ \E b \in ByteAlphabet : s' = [s EXCEPT !.bytes = Append(@, b)]
Spec == Init /\ [][Next]_vars

\* ---------------------------------------------------------------- layers denoted by the states
CanonRow(row) == LET vis == {i \in 1..Len(row) : IsVisible(row[i])} IN
                 IF vis = {} THEN <<>> ELSE SubSeq(row, 1, CHOOSE i \in vis : \A j \in vis : j <= i)
BaseLayer(w, h) == [title |-> <<76, 195, 164>>, role |-> 0, mode |-> 0, color |-> <<>>, vis |-> 1, lock |-> 0, plock |-> 0, alpha |-> 0, alock |-> 0,
                    tr |-> 0, x |-> 0, y |-> 0, w |-> w, h |-> h, fp |-> 0, rows |-> [y \in 1..h |-> <<>>], img |-> <<>>]
GridLayer == [BaseLayer(s.w, s.h) EXCEPT !.rows = [y \in 1..s.h |-> CanonRow([x \in 1..s.w |-> CellOf(s.cells[(y - 1) * s.w + x])])]]
GeoLayer(g) ==
  LET img == g.role = 1 IN
  [BaseLayer(g.w, g.h) EXCEPT !.role = g.role, !.mode = g.mode, !.color = IF g.tag = 1 THEN <<1, 128, 255>> ELSE <<>>,
     !.vis = Bit(g.flags, 1), !.lock = Bit(g.flags, 2), !.plock = Bit(g.flags, 4), !.alpha = Bit(g.flags, 8), !.alock = Bit(g.flags, 16),
     !.tr = 200, !.x = g.x, !.y = g.y, !.fp = 300,
     !.rows = IF img THEN <<>> ELSE [y \in 1..g.h |-> IF y % 2 = 1 THEN [x \in 1..g.w |-> CellOf("S")] ELSE <<>>],
     !.img = IF img THEN <<2, 1, 1, 1, <<10, 20, 30, 255, 40, 50, 60, 0>>>> ELSE <<>>]

\* ---------------------------------------------------------------- R1 invariants
Complete == s.kind = "grid" /\ Len(s.cells) = s.w * s.h
\* Decode o Encode = id for every layer <= MaxW x MaxH over the cell alphabet, for every chunk limit
RoundTrip ==
  Complete => \A max \in Maxes : (max >= 16 * s.w) =>
     LET l == GridLayer   d == DecodeLayerChunks(EncodeLayerChunks(l, max)) IN d.ok /\ d.layer = l
\* a row of full width has no terminator, a shorter row exactly one; the row decoder stops exactly behind the row
RowFraming ==
  Complete => \A y \in 1..s.h :
     LET row == GridLayer.rows[y]
         body == Concat([i \in 1..Len(row) |-> EncodeCell(row[i])])
         enc == EncodeRow(row, s.w)
         r == DecodeRow(enc \o <<1, 0, 65, 7>>, 0, s.w) IN
     /\ enc = body \o (IF Len(row) < s.w THEN <<0, 192>> ELSE <<>>)
     /\ r.ok /\ r.row = row /\ r.o = Len(enc)
\* the short form is used exactly when every field fits a byte, and both forms have the documented sizes
CellSizes == \A c \in Classes : Len(EncodeCell(CellOf(c))) = (IF c = "I" THEN 2 ELSE IF c = "S" THEN 6 ELSE 16)
\* continuation chunks are really exercised by the small limits
ContinuationUsed == (Complete /\ s.h = 2 /\ s.w >= 1 /\ 60 >= 16 * s.w) => Len(EncodeLayerChunks(GridLayer, 60)) >= 2
\* the decoders are total: ok is a Boolean for every byte string, layer size and truncation
RowsTotal == s.kind = "bytes" => \A w \in 0..2, h \in 0..2 : DecodeRows(s.bytes, 0, w, h, <<>>).ok \in BOOLEAN
LayerTotal == s.kind = "bytes" => DecodeLayer(s.bytes).ok \in BOOLEAN /\ DecodeLayer(<<0, 0, 0, 0>> \o [i \in 1..41 |-> 0] \o s.bytes).ok \in BOOLEAN
GeoRoundTrip ==
  s.kind = "geo" =>
     LET l == GeoLayer(s.g)   ch == EncodeLayerChunks(l, 3000000)   d == DecodeLayerChunks(ch) IN
     /\ d.ok /\ d.layer = l
     /\ (s.g.flags \in {0, 31}) => \A n \in 0..(Len(ch[1]) - 1) : ~DecodeLayer(SubSeq(ch[1], 1, n)).ok       \* every truncation is rejected, none crashes the decoder
\* header, keywords, chunk loop on hand-made documents (evaluated once)
Hdr == [bt |-> 1, ice |-> 2, pm |-> 3, fm |-> 1, w |-> 80, h |-> 25]
Examples ==
  /\ LET h == DecodeHeader(EncodeHeader(Hdr)) IN h.ok /\ h.bt = 1 /\ h.ice = 2 /\ h.pm = 3 /\ h.fm = 1 /\ h.w = 80 /\ h.h = 25
  /\ ~DecodeHeader(<<0, 0>>).ok
  /\ ParseKeyword(<<76, 65, 89, 69, 82, 95, 49, 50>>) = [k |-> "LAYER", n |-> 12, c |-> 0]
  /\ ParseKeyword(<<76, 65, 89, 69, 82, 95, 49, 126, 51>>) = [k |-> "CONT", n |-> 1, c |-> 3]
  /\ ParseKeyword(<<70, 79, 78, 84, 95, 51, 48, 48>>) = [k |-> "FONT", n |-> 300, c |-> 0]
  /\ ParseKeyword(<<70, 79, 78, 84, 95>>).k = "BAD" /\ ParseKeyword(<<88>>).k = "OTHER"
  /\ ~SpecDecode(<<>>).ok /\ ~SpecDecode(<<[kw |-> <<69, 78, 68>>, d |-> <<>>]>>).ok
  /\ LET l == BaseLayer(2, 2)
         doc == SpecDecode(<<[kw |-> <<73, 67, 69, 68>>, d |-> EncodeHeader(Hdr)],
                             [kw |-> <<76, 65, 89, 69, 82, 95, 48>>, d |-> EncodeLayerChunks(l, 3000000)[1]],
                             [kw |-> <<69, 78, 68>>, d |-> <<>>]>>) IN
     doc.ok /\ doc.doc.layers = <<l>> /\ doc.doc.pal = Dos16 /\ doc.doc.w = 80
  /\ ~SpecDecode(<<[kw |-> <<73, 67, 69, 68>>, d |-> EncodeHeader(Hdr)], [kw |-> <<76, 65, 89, 69, 82, 95, 48, 126, 49>>, d |-> <<0, 192>>]>>).ok
  /\ DecodeIcePalette(<<73, 67, 69, 32, 80, 97, 108, 101, 116, 116, 101, 10, 35, 120, 10, 48, 49, 102, 70, 49, 48, 10>>) = [ok |-> TRUE, colors |-> <<<<1, 255, 16>>>>]
  /\ I32Bytes(-50) = <<206, 255, 255, 255>> /\ SVal32(LE32(I32Bytes(-50), 0)) = -50 /\ SVal32(LE32(I32Bytes(50), 0)) = 50

ASSUME CellSizes
ASSUME Examples

\* ---------------------------------------------------------------- R2: the case table for the driver
Emit ==
  CASE s.kind = "grid" /\ s.h = 1 /\ Len(s.cells) = s.w -> PrintT(<<"WITNESS", ToJson([kind |-> "row", w |-> s.w, cells |-> s.cells])>>)
    [] s.kind = "geo" -> PrintT(<<"WITNESS", ToJson([kind |-> "geo", g |-> s.g])>>)
    [] OTHER -> TRUE
=============================================================================
