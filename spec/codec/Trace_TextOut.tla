---------------------------- MODULE Trace_TextOut ----------------------------
(* C15: validates recorded save / reload round trips of the Avatar, PCBoard,   *)
(* Ctrl-A, Renegade, ASCII and ATASCII writers (harness/src/textfmt.rs, c15)   *)
(* against TextOut.tla.                                                        *)
(* Events: reset{case,fmt}                                                     *)
(*   rt{fmt, opts{prep}, w, h, src, save, [site], model, bytes, load, bw, bh,   *)
(*      back}   src/back: rows of <<ch, fg, bg, flags>> without trailing plain  *)
(*      blanks (space or NUL, fg 7, bg 0).                                      *)
EXTENDS TextOut, TraceLib

VARIABLES l
vars == <<l>>
Init == l = 1 /\ InitRegs

RECURSIVE CountCells(_, _)
CountCells(rows, y) == IF y > Len(rows) THEN 0 ELSE Len(rows[y]) + CountCells(rows, y + 1)

Next ==
  /\ l <= Len(Rec)
  /\ LET e == Rec[l] IN
     /\ Bump(3)
     /\ CASE e.ev = "reset" -> TRUE
          [] e.ev = "rt" ->
               /\ Bump(4)
               \* the generator must stay inside the property's domain (a case outside is our fault, not the engine's)
               /\ (IF e.fmt \in Formats /\ e.w = WidthOf(e.fmt) /\ InDomain(e.fmt, e.src, e.w) /\ Len(e.src[Len(e.src)]) > 0 THEN TRUE
                   ELSE Viol("TOOL", "case-outside-domain", l, [fmt |-> e.fmt, case |-> e.case]))
               \* ---- property layer
               /\ IF e.save # "ok" THEN Check(FALSE, "C15", "SaveFails", l, [fmt |-> e.fmt, save |-> e.save, site |-> e.site])
                  ELSE IF e.load # "ok" THEN Check(FALSE, "C15", "LoadFails", l, [fmt |-> e.fmt, load |-> e.load, site |-> e.site])
                  ELSE
                    /\ BumpBy(5, CountCells(e.src, 1))
                    /\ Check(e.bw = e.w, "C15", "Width", l, [fmt |-> e.fmt, w |-> e.w, bw |-> e.bw])
                    /\ (IF PictureEqF(e.fmt, e.src, e.back) THEN TRUE
                        ELSE LET d == FirstDiffF(e.fmt, e.src, e.back) IN
                             Viol("C15", "CellEq", l, [fmt |-> e.fmt, prep |-> e.opts.prep, x |-> d[1] - 1, y |-> d[2] - 1,
                                                       src |-> CellAt(e.src, d[1], d[2]), back |-> CellAt(e.back, d[1], d[2]), kind |-> e.kind,
                                                       bom |-> Has(e, "head3") /\ e.head3 = <<239, 187, 191>>]))
                    \* ---- model layer: the loader model over the writer's bytes
                    /\ (IF e.model = 0 THEN TRUE
                        ELSE LET m == ReadFile(e.fmt, e.w, e.bytes) IN
                             /\ Bump(6)
                             /\ Expect(m.bad = 0, "reader-undefined", l, [fmt |-> e.fmt, case |-> e.case])
                             /\ Expect(ModelMatchesF(e.fmt, m.rows, e.back), "reader-model", l, [fmt |-> e.fmt, case |-> e.case])
                             /\ (IF ModelMatchesF(e.fmt, m.rows, e.src) THEN TRUE ELSE Bump(7) /\ Drift("writer-bytes", l, [fmt |-> e.fmt, case |-> e.case])))
          [] OTHER -> Viol("TOOL", "unknown-event", l, e.ev)
  /\ l' = l + 1
Spec == Init /\ [][Next]_vars
=============================================================================
