SPECIFICATION Spec
CONSTANTS MaxW = 4
          EolRule = "engine"
INVARIANT Grammar
INVARIANT ReaderTotal
INVARIANT RoundTrip
CHECK_DEADLOCK FALSE
