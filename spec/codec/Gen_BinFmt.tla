------------------------------ MODULE Gen_BinFmt ------------------------------
(* R2 for C05: TLC enumerates the configuration space of each format (which     *)
(* optional blocks a file has, which mode bits, the boundary sizes of the        *)
(* property text) as witnesses; the Rust driver builds one source picture per    *)
(* witness (plus seeded random ones).  A configuration is legal iff the format   *)
(* document allows it (HeaderLegal of XBin.tla for XBin).                        *)
EXTENDS XBin, TLC, Json
VARIABLES fmt, cfg
vars == <<fmt, cfg>>
Bool == {0, 1}
XbConfigs == {c \in [pal : Bool, font : Bool, two : Bool, compress : Bool, ice : Bool, fh : {1, 8, 16, 32}, size : {<<1, 1>>, <<2, 24>>, <<63, 25>>, <<64, 26>>, <<65, 3>>, <<80, 25>>}] :
                 /\ HeaderLegal([ok |-> TRUE, w |-> c.size[1], h |-> c.size[2], fh |-> c.fh,
                                 flags |-> c.pal * FlagPalette + c.font * FlagFont + c.compress * FlagCompress + c.ice * FlagNonBlink + c.two * Flag512])
                 /\ (c.two = 1 => c.size[1] * c.size[2] >= 2)
                 \* sizes rotate with the other choices instead of multiplying them (one size per block combination)
                 /\ c.size = (<< <<1, 1>>, <<2, 24>>, <<63, 25>>, <<64, 26>>, <<65, 3>>, <<80, 25>> >>)[((c.pal + 2 * c.two + 4 * c.compress + c.ice + c.fh) % 6) + 1]}
BinConfigs == [mode : 0..2, w : {2, 80, 160, 510}, h : {1, 25}]
AdfConfigs == [h : {1, 24, 25, 26, 201}, sauce : Bool]
IdfConfigs == [w : {1, 79, 80}, h : {1, 24, 25, 26, 200}, compress : Bool]
TndConfigs == [w : {1, 80, 132, 300}, h : {1, 7}, ncol : {2, 16, 300}]
Init == \/ fmt = "xb" /\ cfg \in XbConfigs
        \/ fmt = "bin" /\ cfg \in BinConfigs
        \/ fmt = "adf" /\ cfg \in AdfConfigs
        \/ fmt = "idf" /\ cfg \in IdfConfigs
        \/ fmt = "tnd" /\ cfg \in TndConfigs
Next == UNCHANGED vars
Spec == Init /\ [][Next]_vars
Emit == PrintT(<<"WITNESS", ToJson([fmt |-> fmt, cfg |-> cfg])>>)
=============================================================================
