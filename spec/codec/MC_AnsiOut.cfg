SPECIFICATION Spec
CONSTANTS MaxW = 4
          EolRule = "design"
INVARIANT Grammar
INVARIANT ReaderTotal
INVARIANT RoundTrip
CHECK_DEADLOCK FALSE
