--------------------------- MODULE Trace_IcyDraw ---------------------------
(* C07: validates recorded save -> load round trips of the real icy_engine    *)
(* (harness/src/icy.rs, fn c07) against IcyDraw.tla.                          *)
(*                                                                           *)
(* Events:  reset{case, cls}                                                  *)
(*          doc{case, cls, save, load, site, src, chunks, back}               *)
(*   src / back : projections of the source / re-loaded document (see         *)
(*                IcyDraw.tla, "the property"), chunks : the decoded zTXt      *)
(*                payloads of the saved file in file order.                    *)
(*                                                                           *)
(* Property layer (decides the verdict) - the sentence of properties.jsonl:    *)
(*   SaveLoadOk : saving and loading a document of the stated domain succeeds; *)
(*   DocEq      : the re-loaded document equals the source document, field by  *)
(*                field (recorded values only).                                *)
(* Model layer (drift only): the document SpecDecode reads out of the chunk    *)
(* payloads equals the source document (and the re-loaded one), including the  *)
(* image bytes of image layers which the property does not list.               *)
EXTENDS IcyDraw, TraceLib
VARIABLES l
vars == <<l>>
Init == l = 1 /\ InitRegs

Cells(doc) == FoldLeft(LAMBDA acc, ly : acc + ly.w * ly.h, 0, doc.layers)

Next ==
  /\ l <= Len(Rec)
  /\ LET e == Rec[l] IN
     /\ Bump(3)
     /\ CASE e.ev \in {"reset", "sum"} -> TRUE     \* sum: digest line for the bookkeeping of the check (counts distinct documents)
          [] e.ev = "doc" ->
               /\ Bump(4)
               /\ Check(e.save = "ok" /\ e.load = "ok", "C07", "SaveLoadOk", l, [case |-> e.case, cls |-> e.cls, save |-> e.save, load |-> e.load, site |-> e.site])
               /\ IF e.save = "ok" /\ e.load = "ok"
                    THEN LET diff == DocDiff(e.src, e.back)
                             m == SpecDecode(e.chunks) IN
                         /\ Bump(5) /\ BumpBy(6, Len(e.src.layers)) /\ BumpBy(7, Cells(e.src))
                         /\ Check(diff = {}, "C07", "DocEq", l, [case |-> e.case, cls |-> e.cls, diff |-> SetToSeq(diff)])
                         /\ Expect(m.ok, "spec-decode-fails", l, [case |-> e.case, why |-> m.why])
                         /\ IF m.ok THEN /\ Expect(m.doc = e.src, "spec-decode-vs-source", l, [case |-> e.case, diff |-> SetToSeq(DocDiff(m.doc, e.src))])
                                         /\ Expect(m.doc = e.back, "spec-decode-vs-reloaded", l, [case |-> e.case, diff |-> SetToSeq(DocDiff(m.doc, e.back))])
                                 ELSE TRUE
                    ELSE TRUE
          [] OTHER -> Viol("TOOL", "unknown-event", l, e.ev)
  /\ l' = l + 1
Spec == Init /\ [][Next]_vars
=============================================================================
