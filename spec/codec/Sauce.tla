------------------------------- MODULE Sauce -------------------------------
(***************************************************************************)
(* SAUCE (Standard Architecture for Universal Comment Extensions) rev. 5,  *)
(* as used by icy_engine (C11).  Written from the format document in       *)
(* /repo/doc, not from the Rust.                                            *)
(*                                                                         *)
(*   File = content o <<EOF>> o [ CmtId o n x CmtLen ] o Record(RecLen)     *)
(*                                                                         *)
(* The record is located at Len(file) - RecLen and starts with SauceId; the *)
(* comment block (if the record's comment count n > 0) sits directly in     *)
(* front of the record and starts with CmtId; one EOF byte sits in front of *)
(* the block.  Everything before is content - whatever it looks like.       *)
(*                                                                         *)
(* Layout constants are parameters: real values in trace mode               *)
(* (RecLen 128, CmtLen 64, "SAUCE", "COMNT", 0x1A, count at offset 104),    *)
(* scaled-down ones for exhaustive model checking (RecLen 8, CmtLen 2,      *)
(* one-byte ids).  Bytes are naturals.                                      *)
(***************************************************************************)
EXTENDS Naturals, Sequences, FiniteSets

CONSTANTS RecLen,     \* length of the SAUCE record
          CmtLen,     \* length of one comment line
          SauceId,    \* sequence of bytes opening the record
          CmtId,      \* sequence of bytes opening the comment block
          EofByte,    \* the EOF character
          CountOff    \* 0-based offset of the comment count inside the record

Take(s, n) == SubSeq(s, 1, n)
Drop(s, n) == SubSeq(s, n + 1, Len(s))
Slice(s, o, n) == SubSeq(s, o + 1, o + n)           \* n bytes at 0-based offset o

RECURSIVE Flatten(_)
Flatten(ss) == IF ss = <<>> THEN <<>> ELSE Head(ss) \o Flatten(Tail(ss))

(***************************************************************************)
(* Writer side.  `rec` must be a well-formed record for the comment list:   *)
(***************************************************************************)
WellFormedRec(rec, comments) ==
  /\ Len(rec) = RecLen
  /\ Take(rec, Len(SauceId)) = SauceId
  /\ rec[CountOff + 1] = Len(comments)
  /\ \A i \in 1..Len(comments) : Len(comments[i]) = CmtLen

CommentBlock(comments) == IF comments = <<>> THEN <<>> ELSE CmtId \o Flatten(comments)

Join(content, comments, rec) == content \o <<EofByte>> \o CommentBlock(comments) \o rec

\* number of trailing bytes that are not content (sauce_header_len of the engine)
HeaderLen(n) == 1 + (IF n > 0 THEN Len(CmtId) + n * CmtLen ELSE 0) + RecLen

(***************************************************************************)
(* Reader side.  Total on every byte string:                                *)
(*  - shorter than a record, or no SauceId at Len - RecLen: no SAUCE, the   *)
(*    whole string is content;                                              *)
(*  - comment count n > 0 but no room for / no CmtId in front of the record:*)
(*    the comment block is invalid, the record still counts (cmtok = FALSE);*)
(*  - the byte in front of block/record is cut only if it is the EOF byte   *)
(*    (a file consisting of nothing but a record has empty content).        *)
(***************************************************************************)
NoSauce(f) == [sauce |-> FALSE, content |-> f, hdr |-> 0, comments |-> <<>>, rec |-> <<>>, eof |-> FALSE, cmtok |-> TRUE]

Split(f) ==
  LET L == Len(f) IN
  IF L < RecLen THEN NoSauce(f)
  ELSE IF Slice(f, L - RecLen, Len(SauceId)) # SauceId THEN NoSauce(f)
  ELSE
    LET ro    == L - RecLen
        rec   == Drop(f, ro)
        n     == rec[CountOff + 1]
        blk   == Len(CmtId) + n * CmtLen
        cmtok == n = 0 \/ (ro >= blk /\ Slice(f, ro - blk, Len(CmtId)) = CmtId)
        bo    == IF n > 0 /\ cmtok THEN ro - blk ELSE ro
        eof   == bo >= 1 /\ f[bo] = EofByte
        co    == IF eof THEN bo - 1 ELSE bo
    IN [sauce |-> TRUE, content |-> Take(f, co), hdr |-> L - co,
        comments |-> IF n > 0 /\ cmtok THEN [i \in 1..n |-> Slice(f, bo + Len(CmtId) + (i - 1) * CmtLen, CmtLen)] ELSE <<>>,
        rec |-> rec, eof |-> eof, cmtok |-> cmtok]

\* C11, second sentence, on the design: the split is exact
SplitExact(content, comments, rec) ==
  LET s == Split(Join(content, comments, rec)) IN
  s.sauce /\ s.content = content /\ s.comments = comments /\ s.rec = rec /\ s.eof /\ s.cmtok
  /\ s.hdr = HeaderLen(Len(comments))

\* totality / sanity of Split on an arbitrary string
SplitSane(f) ==
  LET s == Split(f) IN
  /\ s.content = Take(f, Len(s.content))
  /\ Len(s.content) + s.hdr = Len(f)
  /\ (s.sauce => s.hdr >= RecLen /\ s.rec = Drop(f, Len(f) - RecLen))
  /\ (~s.sauce => s.hdr = 0)
  /\ \A i \in 1..Len(s.comments) : Len(s.comments[i]) = CmtLen

(***************************************************************************)
(* Fixed-width character fields.  A field of width w holds the text padded  *)
(* with blanks (title, author, group; the engine pads comment lines and     *)
(* TInfoS with NUL).  Padding cannot be told from trailing blanks / NULs of *)
(* the text, so a field carries a text exactly up to its trailing blanks    *)
(* and NULs: Strip.                                                         *)
(***************************************************************************)
Blank == 32
Nul == 0
IsPad(b) == b = Blank \/ b = Nul

RECURSIVE Strip(_)
Strip(s) == IF s # <<>> /\ IsPad(s[Len(s)]) THEN Strip(Take(s, Len(s) - 1)) ELSE s

PadTo(s, w, pad) == IF Len(s) >= w THEN Take(s, w) ELSE s \o [i \in 1..(w - Len(s)) |-> pad]

RECURSIVE FirstNul(_, _)
FirstNul(s, i) == IF i > Len(s) THEN Len(s) + 1 ELSE IF s[i] = Nul THEN i ELSE FirstNul(s, i + 1)

\* what a reader recovers from a field: blank-padded fields lose trailing blanks, NUL-padded (C string)
\* fields end at the first NUL.  (Model of SauceString::read; used in the model layer.)
RECURSIVE StripBlanks(_)
StripBlanks(s) == IF s # <<>> /\ s[Len(s)] = Blank THEN StripBlanks(Take(s, Len(s) - 1)) ELSE s
ReadField(field, pad) ==
  IF pad = Nul THEN Take(field, FirstNul(field, 1) - 1)
  ELSE IF StripBlanks(field) = <<>> THEN field ELSE StripBlanks(field)     \* an all-blank field is kept as it is (code quirk)

\* a text is representable in a NUL-padded field iff it has no NUL followed by a non-NUL (no embedded NUL)
NoEmbeddedNul(s) == \A i \in 1..Len(s) : s[i] = Nul => \A j \in i..Len(s) : s[j] = Nul

\* the field law: writing a text into a field and reading it back preserves it up to trailing pads
FieldLaw(text, w, pad) ==
  (Len(text) <= w /\ (pad = Nul => NoEmbeddedNul(text))) => Strip(ReadField(PadTo(text, w, pad), pad)) = Strip(text)

(***************************************************************************)
(* The real 128-byte record (offsets from the specification, rev. 5)       *)
(*  ID 0(5) Version 5(2) Title 7(35) Author 42(20) Group 62(20) Date 82(8)  *)
(*  FileSize 90(4) DataType 94 FileType 95 TInfo1 96(2) TInfo2 98(2)        *)
(*  TInfo3 100(2) TInfo4 102(2) Comments 104 TFlags 105 TInfoS 106(22)      *)
(***************************************************************************)
U16(rec, o) == rec[o + 1] + 256 * rec[o + 2]
Fields(rec) ==
  [version |-> Slice(rec, 5, 2), title |-> Slice(rec, 7, 35), author |-> Slice(rec, 42, 20), group |-> Slice(rec, 62, 20),
   date |-> Slice(rec, 82, 8), filesize |-> Slice(rec, 90, 4), datatype |-> rec[95], filetype |-> rec[96],
   tinfo1 |-> U16(rec, 96), tinfo2 |-> U16(rec, 98), tinfo3 |-> U16(rec, 100), tinfo4 |-> U16(rec, 102),
   comments |-> rec[105], flags |-> rec[106], tinfos |-> Slice(rec, 106, 22)]

\* ANSiFlags: 000ARLSB  (B non-blink/iCE, LS letter spacing 00 legacy 01 8px 10 9px, AR aspect ratio 00 legacy 01 stretch 10 square)
FlagIce(fl) == fl % 2
FlagLS(fl) == (fl \div 2) % 4
FlagAR(fl) == (fl \div 8) % 4

(***************************************************************************)
(* SAUCE variants written by the engine and what each can carry.            *)
(* DataType/FileType: Character(1)/ASCII 0, ANSi 1, PCBoard 4, Avatar 5,    *)
(* TundraDraw 8; BinaryText(5)/width div 2; XBin(6)/0.                      *)
(* A field counts for a variant iff rev. 5 defines it for that type AND the *)
(* engine's own extractor populates it (weakest defensible reading of "the  *)
(* metadata values its SAUCE variant can carry").                           *)
(***************************************************************************)
Variants == {"ansi", "ascii", "pcboard", "avatar", "tundra", "bin", "xbin"}

VariantOf(writer) ==
  CASE writer \in {"ans", "adf", "icy"} -> "ansi"
    [] writer = "asc" -> "ascii"
    [] writer = "pcb" -> "pcboard"
    [] writer = "avt" -> "avatar"
    [] writer = "tnd" -> "tundra"
    [] writer \in {"bin", "idf"} -> "bin"
    [] writer = "xb" -> "xbin"

Common == {"title", "author", "group", "comments"}
Carried(v) ==
  Common \cup
  (CASE v \in {"ansi", "ascii"} -> {"width", "ice", "ls", "ar", "font"}
     [] v \in {"pcboard", "avatar", "tundra", "xbin"} -> {"width"}
     [] v = "bin" -> {"width", "ice", "font"})

TypeOf(v) ==
  CASE v = "ascii" -> <<1, 0>> [] v = "ansi" -> <<1, 1>> [] v = "pcboard" -> <<1, 4>> [] v = "avatar" -> <<1, 5>>
    [] v = "tundra" -> <<1, 8>> [] v = "bin" -> <<5, 0>> [] v = "xbin" -> <<6, 0>>

\* which widths a variant can carry: 16 bit TInfo1, or an even width up to 510 in BinaryText's FileType
WidthCarried(v, w) == IF v = "bin" THEN w % 2 = 0 /\ w \div 2 <= 255 ELSE w < 65536
\* BinaryText with width div 2 > 255 cannot be written at all
Writable(v, w) == v = "bin" => w \div 2 <= 255

\* width recorded in a record of variant v
WidthOf(v, fl) == IF v = "bin" THEN 2 * fl.filetype ELSE fl.tinfo1
=============================================================================
