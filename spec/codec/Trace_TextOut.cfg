SPECIFICATION Spec
CONSTANTS AvtGoto = "code"
POSTCONDITION Post
CHECK_DEADLOCK FALSE
