---------------------------- MODULE Trace_AnsiOut ----------------------------
(* C04: validates recorded save / reload round trips of the ANSI writer        *)
(* (harness/src/textfmt.rs, fn c04) against AnsiOut.tla.                        *)
(*                                                                             *)
(* Events: reset{case}                                                         *)
(*   rt{fmt:"ans", opts{sauce,compress,cuf,rep,preserve,longer,extcol,normws,   *)
(*      prep,ctrl}, ice, w, h, pal, src, save, [site], tokens, load, bw, bh,    *)
(*      bice, bpal, back}                                                       *)
(* src/back: rows of cells <<ch, fg, bg, flags>> without trailing plain blanks. *)
EXTENDS AnsiOut, TraceLib

VARIABLES l
vars == <<l>>
Init == l = 1 /\ InitRegs

RECURSIVE CountCells(_, _)
CountCells(rows, y) == IF y > Len(rows) THEN 0 ELSE Len(rows[y]) + CountCells(rows, y + 1)

NoBlinkRaw(rows) == \A y \in 1..Len(rows) : \A x \in 1..Len(rows[y]) : Blink(rows[y][x]) = 0
Next ==
  /\ l <= Len(Rec)
  /\ LET e == Rec[l] IN
     /\ Bump(3)
     /\ CASE e.ev = "reset" -> TRUE
          [] e.ev = "rt" ->
               /\ Bump(4)
               \* ---- property layer -------------------------------------------------------------
               \* "to_bytes must not fail or panic for a buffer in the stated domain"
               /\ IF e.save # "ok" THEN Check(FALSE, "C04", "SaveFails", l, [save |-> e.save, site |-> e.site, opts |-> e.opts])
                  ELSE IF e.load # "ok" THEN Check(FALSE, "C04", "LoadFails", l, [load |-> e.load, site |-> e.site, opts |-> e.opts])
                  ELSE
                    \* "parses back to a buffer that shows the same character, the same displayed foreground and
                    \*  background colour and the same blink state in every cell"
                    /\ Check(SizeOk(e.w, e.h, e.bw, e.bh), "C04", "Size", l, [w |-> e.w, h |-> e.h, bw |-> e.bw, bh |-> e.bh, opts |-> e.opts])
                    /\ BumpBy(5, CountCells(e.src, 1))
                    /\ (IF PictureEq(e.src, e.ice, e.pal, e.back, e.bice, e.bpal, e.w) THEN TRUE
                        ELSE LET d == FirstDiff(e.src, e.ice, e.pal, e.back, e.bice, e.bpal, e.w)
                                 s == Shown(CellAt(e.src, d[1], d[2]), e.ice, e.pal)
                                 b == Shown(CellAt(e.back, d[1], d[2]), e.bice, e.bpal) IN
                             Viol("C04", "CellEq", l, [x |-> d[1] - 1, y |-> d[2] - 1, src |-> CellAt(e.src, d[1], d[2]), back |-> CellAt(e.back, d[1], d[2]),
                                                       shown_src |-> s, shown_back |-> b, ice |-> e.ice, opts |-> e.opts, w |-> e.w, h |-> e.h]))
                    \* "the same blink state": a source picture in ice mode has no blinking cell; when the FILE switches the reader to
                    \* iCE colours (CSI ? 33 h) no cell read back may carry the blink attribute either (Shown forgives the blink bit in an
                    \* iCE buffer because pictures whose flag comes from SAUCE are stored that way - that excuse does not apply here)
                    /\ Check(~(e.ice_seq = 1 /\ e.ice = "ice" /\ e.bice = "ice" /\ NoBlinkRaw(e.src)) \/ NoBlinkRaw(e.back), "C04", "IceBlinkState", l,
                             [ice |-> e.ice, bice |-> e.bice, opts |-> e.opts, w |-> e.w, h |-> e.h])
                    \* ---- model layer: the reader model over the writer's tokens ------------------------
                    /\ (IF e.model = 0 THEN TRUE
                        ELSE
                          /\ (IF \A k \in 1..Len(e.tokens) : ValidToken(e.tokens[k]) THEN TRUE
                              ELSE Drift("grammar", l, [tok |-> e.tokens[CHOOSE k \in 1..Len(e.tokens) : ~ValidToken(e.tokens[k])]]))
                          /\ LET m == ReadAll(e.w, e.tokens) IN
                             /\ Bump(6)
                             /\ Expect(m.bad = 0, "reader-undefined", l, [case |-> e.case])
                             \* reader fault: the model reads the tokens differently from the loader
                             /\ Expect(ModelMatches(m.rows, e.back, e.bice, e.bpal), "reader-model", l, [case |-> e.case, opts |-> e.opts])
                             \* writer fault: the tokens, read by the model, do not show the source
                             /\ (IF ModelMatches(m.rows, e.src, e.ice, e.pal) THEN TRUE ELSE Bump(7) /\ Drift("writer-tokens", l, [case |-> e.case, opts |-> e.opts])))
          [] OTHER -> Viol("TOOL", "unknown-event", l, e.ev)
  /\ l' = l + 1
Spec == Init /\ [][Next]_vars
=============================================================================
