------------------------------ MODULE Trace_Crc ------------------------------
(* C19: every value returned by get_crc16 / update_crc16 / get_crc32 /          *)
(* update_crc32 and recorded by the harness equals the bitwise definition.      *)
EXTENDS Crc, TraceLib
VARIABLES l
vars == <<l>>
Init == l = 1 /\ InitRegs
Next ==
  /\ l <= Len(Rec)
  /\ LET e == Rec[l] IN
     /\ Bump(3)
     /\ CASE e.ev = "row16" ->
               /\ BumpBy(4, 256)
               /\ Check(\A b \in 0..255 : e.r[b + 1] = Crc16Byte(e.s, b), "C19", "Update16", l, [s |-> e.s])
          [] e.ev = "row32" ->
               /\ BumpBy(5, 256)
               /\ Check(\A b \in 0..255 : e.r[b + 1] = Crc32Byte(e.s, b), "C19", "Update32", l, [s |-> e.s])
          [] e.ev = "str" ->
               /\ Bump(6)
               /\ Check(e.one16 = Crc16(e.bytes), "C19", "OneShot16", l, [len |-> Len(e.bytes), got |-> e.one16])
               /\ Check(e.inc16 = e.one16, "C19", "Incremental16", l, [len |-> Len(e.bytes)])
               /\ Check(e.one32 = Crc32(e.bytes), "C19", "OneShot32", l, [len |-> Len(e.bytes), got |-> e.one32])
               /\ Check(e.inc32 = e.one32, "C19", "Incremental32", l, [len |-> Len(e.bytes)])
          [] e.ev = "long" ->    \* inputs of 4 KiB .. 256 KiB: one-shot value against the byte-wise feed (whose steps the update rows judge)
               /\ Bump(6)
               /\ Check(e.inc16 = e.one16, "C19", "Incremental16", l, [len |-> e.len])
               /\ Check(e.inc32 = e.one32, "C19", "Incremental32", l, [len |-> e.len])
          [] e.ev = "user" ->    \* a caller of the incremental API (model layer: the routines themselves are judged by the rows)
               /\ Bump(9)
               /\ Expect(e.first /\ e.again /\ e.edited /\ e.restored, "caller:" \o e.who, l, e)
          [] e.ev = "two" ->
               /\ BumpBy(7, 256)
               /\ Check(\A b \in 0..255 : e.c16[b + 1] = Crc16(<<e.a, b>>), "C19", "OneShot16", l, [len |-> 2, a |-> e.a])
               /\ Check(\A b \in 0..255 : e.c32[b + 1] = Crc32(<<e.a, b>>), "C19", "OneShot32", l, [len |-> 2, a |-> e.a])
          [] e.ev = "blk" ->     \* strings pre \o block, block = 16 bytes e.base with byte e.p (1-based) replaced by v = 0..255
               /\ BumpBy(8, 256)
               /\ LET st == Crc32From(<<65535, 65535>>, e.pre, 1) IN
                  Check(\A v \in 0..255 : e.c32[v + 1] = Inv32(Crc32From(st, [e.base EXCEPT ![e.p] = v] \o e.post, 1)), "C19", "OneShot32", l, [len |-> 16 + Len(e.pre) + Len(e.post), p |-> e.p])
          [] OTHER -> Viol("TOOL", "unknown-event", l, e.ev)
  /\ l' = l + 1
Spec == Init /\ [][Next]_vars
=============================================================================
