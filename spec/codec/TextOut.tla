------------------------------ MODULE TextOut ------------------------------
(***************************************************************************)
(* C15: Avatar, PCBoard, Ctrl-A, Renegade, ASCII and ATASCII files written  *)
(* by the engine parse back as saved.                                       *)
(*                                                                         *)
(*  (i)   per-format display equivalence ("16/8": character, foreground     *)
(*        0..15, background 0..7; ASCII: characters; ATASCII: character and *)
(*        inverse video; blank-on-black after the end of a row and below    *)
(*        the last row is insignificant);                                   *)
(*  (ii)  byte-level reader models of the six loaders;                      *)
(*  (iii) abstract writers: every valid encoding of a row (attribute codes  *)
(*        only on change or always, Avatar repeat sequences of any length,  *)
(*        line break unless the row fills the width).                       *)
(*                                                                         *)
(* A cell is <<ch, fg, bg, flags>> as recorded by the driver; a screen cell *)
(* of the reader model is <<ch, fg, bg>>.  Formats are named by extension:  *)
(* "avt" "pcb" "msg" (Ctrl-A) "an1" (Renegade) "asc" "ata".                 *)
(***************************************************************************)
EXTENDS Naturals, Sequences, FiniteSets
LOCAL INSTANCE SequencesExt          \* FoldLeft (linear; deep RECURSIVE operators are quadratic in TLC)

CONSTANT AvtGoto     \* "code": ^V^H a b sets column a, row b, zero based (what parsers/avatar does)
                     \* "spec": ^V^H row col, one based (FSC-0025, and what the Avatar writer assumes for Home = 1,1)

Formats == {"avt", "pcb", "msg", "an1", "asc", "ata"}
ColourFormats == {"avt", "pcb", "msg", "an1"}
WidthOf(f) == IF f = "ata" THEN 40 ELSE 80

DefaultCell == <<32, 7, 0, 0>>
CellAt(rows, x, y) == IF y <= Len(rows) /\ x <= Len(rows[y]) THEN rows[y][x] ELSE DefaultCell
Blank(ch) == ch \in {0, 32}

\* (i) equivalence of a source cell a and a reloaded cell b in format f
CellEqF(f, a, b) ==
  IF f = "asc" THEN a[1] = b[1] \/ (Blank(a[1]) /\ Blank(b[1]))
  ELSE IF f = "ata" THEN a[1] = b[1] /\ ((a[3] > 0) = (b[3] > 0))
  ELSE IF Blank(a[1]) /\ Blank(b[1]) THEN a[3] = b[3]            \* a blank shows its background only
  ELSE a[1] = b[1] /\ a[2] = b[2] /\ a[3] = b[3]

RowLen(rows, y) == IF y <= Len(rows) THEN Len(rows[y]) ELSE 0
Max2(a, b) == IF a > b THEN a ELSE b
PictureEqF(f, src, back) ==
  \A y \in 1..Max2(Len(src), Len(back)) : \A x \in 1..Max2(RowLen(src, y), RowLen(back, y)) : CellEqF(f, CellAt(src, x, y), CellAt(back, x, y))

RECURSIVE FirstBadRowF(_, _, _, _, _)
FirstBadRowF(f, src, back, y, h) ==
  IF y > h THEN 0
  ELSE IF \A x \in 1..Max2(RowLen(src, y), RowLen(back, y)) : CellEqF(f, CellAt(src, x, y), CellAt(back, x, y)) THEN FirstBadRowF(f, src, back, y + 1, h)
  ELSE y
FirstDiffF(f, src, back) ==
  LET y == FirstBadRowF(f, src, back, 1, Max2(Len(src), Len(back))) IN
  IF y = 0 THEN <<0, 0>>
  ELSE <<CHOOSE x \in 1..Max2(RowLen(src, y), RowLen(back, y)) :
           ~CellEqF(f, CellAt(src, x, y), CellAt(back, x, y)) /\ \A x2 \in 1..(x - 1) : CellEqF(f, CellAt(src, x2, y), CellAt(back, x2, y)), y>>

\* the property's domain, checked on the recorded source (a case outside is a tool error, not a verdict)
LeadIn(f) == CASE f = "avt" -> {22, 25, 12} [] f = "pcb" -> {64} [] f = "msg" -> {1} [] f = "an1" -> {124}
               [] f = "ata" -> {27, 28, 29, 30, 31, 125, 126, 127} [] OTHER -> {}
InDomainCell(f, c) ==
  /\ c[1] \notin LeadIn(f)
  /\ (IF f = "ata" THEN c[1] \in 1..124 ELSE c[1] \in (32..126) \cup (128..254))
  /\ c[2] \in 0..15 /\ c[3] \in 0..7 /\ c[4] = 0
InDomain(f, src, w) == Len(src) \in 1..42 /\ \A y \in 1..Len(src) : Len(src[y]) <= w /\ \A x \in 1..Len(src[y]) : InDomainCell(f, src[y][x])

(***************************************************************************)
(* (ii) Reader models.  r = [x, y, fg, bg, st, aux, bold, rows, bad]        *)
(***************************************************************************)
R0 == [x |-> 0, y |-> 0, fg |-> 7, bg |-> 0, st |-> "n", aux |-> 0, bold |-> FALSE, rows |-> <<>>, bad |-> 0]
DefaultScreenCell == <<32, 7, 0>>
PadRow(row, n) == IF Len(row) >= n THEN row ELSE row \o [i \in 1..(n - Len(row)) |-> DefaultScreenCell]
PadRows(rows, n) == IF Len(rows) >= n THEN rows ELSE rows \o [i \in 1..(n - Len(rows)) |-> <<>>]
PutRun(rows, x, y, cs) ==
  LET rs == PadRows(rows, y + 1)
      old == rs[y + 1]
      new == IF Len(old) <= x THEN PadRow(old, x) \o cs ELSE SubSeq(old, 1, x) \o cs \o SubSeq(old, x + Len(cs) + 1, Len(old))
  IN [rs EXCEPT ![y + 1] = new]

RECURSIVE PrintN(_, _, _, _)
PrintN(r, w, ch, n) ==          \* n copies of ch with the current colours; auto wrap at column w
  IF n = 0 THEN r
  ELSE LET room == w - r.x
           k == IF n < room THEN n ELSE room
           rows2 == PutRun(r.rows, r.x, r.y, [i \in 1..k |-> <<ch, r.fg, r.bg>>]) IN
       IF n < room THEN [r EXCEPT !.rows = rows2, !.x = r.x + k]
       ELSE PrintN([r EXCEPT !.rows = rows2, !.x = 0, !.y = r.y + 1], w, ch, n - k)
Print1(r, w, ch) == PrintN(r, w, ch, 1)

\* the part every loader shares with the ANSI parser: CR, LF (which also returns to column 0), printable bytes
Plain(r, w, b) ==
  IF b = 13 THEN [r EXCEPT !.x = 0]
  ELSE IF b = 10 THEN [r EXCEPT !.x = 0, !.y = r.y + 1]
  ELSE IF b \in {27, 12, 7, 127} THEN [r EXCEPT !.bad = 1]
  ELSE Print1(r, w, b)

FromU8(r, b) == [r EXCEPT !.fg = b % 16, !.bg = (b \div 16) % 8, !.bad = IF b >= 128 THEN 1 ELSE r.bad]      \* TextAttribute::from_u8 (blink outside C15)
Hex(b) == IF b \in 48..57 THEN b - 48 ELSE IF b \in 65..70 THEN b - 55 ELSE IF b \in 97..102 THEN b - 87 ELSE 0
Clamp(v, hi) == IF v > hi THEN hi ELSE v

FgLetters == <<75, 66, 71, 67, 82, 77, 89, 87>>      \* "KBGCRMYW"
BgDigits == <<48, 52, 50, 54, 49, 53, 51, 55>>       \* "04261537"
IndexIn(s, b) == IF \E i \in 1..Len(s) : s[i] = b THEN CHOOSE i \in 1..Len(s) : s[i] = b ELSE 0

StepAvt(r, w, b) ==
  CASE r.st = "n" ->
         (IF b = 12 THEN [r EXCEPT !.rows = <<>>, !.x = 0, !.y = 0, !.fg = 7, !.bg = 0]           \* ^L: clear, attributes reset
          ELSE IF b = 25 THEN [r EXCEPT !.st = "rep1"]
          ELSE IF b = 22 THEN [r EXCEPT !.st = "cmd"]
          ELSE Plain(r, w, b))
    [] r.st = "cmd" -> (IF b = 1 THEN [r EXCEPT !.st = "color"] ELSE IF b = 8 THEN [r EXCEPT !.st = "mv1"] ELSE [r EXCEPT !.st = "n", !.bad = 1])
    [] r.st = "color" -> [FromU8(r, b) EXCEPT !.st = "n"]
    [] r.st = "rep1" -> [r EXCEPT !.aux = b, !.st = "rep2"]
    [] r.st = "rep2" -> [PrintN(r, w, r.aux, b) EXCEPT !.st = "n"]
    [] r.st = "mv1" -> [r EXCEPT !.aux = b, !.st = "mv2"]
    [] r.st = "mv2" -> (IF AvtGoto = "code" THEN [r EXCEPT !.x = Clamp(r.aux, w - 1), !.y = b, !.st = "n"]
                        ELSE [r EXCEPT !.y = IF r.aux >= 1 THEN r.aux - 1 ELSE 0, !.x = Clamp(IF b >= 1 THEN b - 1 ELSE 0, w - 1), !.st = "n"])
    [] OTHER -> [r EXCEPT !.bad = 1]

StepPcb(r, w, b) ==
  CASE r.st = "n" -> (IF b = 64 THEN [r EXCEPT !.st = "code"] ELSE Plain(r, w, b))
    [] r.st = "code" -> (IF b = 64 THEN [r EXCEPT !.st = "n"] ELSE IF b = 88 THEN [r EXCEPT !.st = "col1"] ELSE r)      \* @CLS@ is swallowed
    [] r.st = "col1" -> [r EXCEPT !.aux = Hex(b), !.st = "col2"]
    [] r.st = "col2" -> [FromU8(r, (r.aux * 16 + Hex(b)) % 256) EXCEPT !.st = "n"]
    [] OTHER -> [r EXCEPT !.bad = 1]

StepMsg(r, w, b) ==
  CASE r.st = "n" -> (IF b = 1 THEN [r EXCEPT !.st = "ctl"] ELSE Plain(r, w, b))
    [] r.st = "ctl" ->
         LET n == [r EXCEPT !.st = "n"] IN
         (IF b = 76 THEN [n EXCEPT !.rows = <<>>, !.x = 0, !.y = 0]                                 \* ^AL clear screen
          ELSE IF b = 39 THEN [n EXCEPT !.x = 0, !.y = 0]                                           \* ^A' home
          ELSE IF b = 78 THEN [n EXCEPT !.fg = 7, !.bg = 0, !.bold = FALSE]                         \* ^AN normal
          ELSE IF b = 72 THEN [n EXCEPT !.bold = TRUE, !.fg = IF r.fg < 8 THEN r.fg + 8 ELSE r.fg]  \* ^AH high intensity
          ELSE IF IndexIn(FgLetters, b) > 0 THEN [n EXCEPT !.fg = IndexIn(FgLetters, b) - 1 + (IF r.bold THEN 8 ELSE 0)]
          ELSE IF IndexIn(BgDigits, b) > 0 THEN [n EXCEPT !.bg = IndexIn(BgDigits, b) - 1]
          ELSE [n EXCEPT !.bad = 1])
    [] OTHER -> [r EXCEPT !.bad = 1]

StepAn1(r, w, b) ==
  CASE r.st = "n" -> (IF b = 124 THEN [r EXCEPT !.st = "d1"] ELSE Plain(r, w, b))
    [] r.st = "d1" -> (IF b \in 48..51 THEN [r EXCEPT !.aux = (b - 48) * 10, !.st = "d2"] ELSE [r EXCEPT !.st = "n", !.bad = 1])
    [] r.st = "d2" ->
         (IF b \in 48..57 THEN LET c == r.aux + (b - 48) IN
               (IF c < 16 THEN [r EXCEPT !.fg = c, !.st = "n"] ELSE [r EXCEPT !.bg = c - 16, !.st = "n", !.bad = IF c - 16 > 7 THEN 1 ELSE r.bad])
          ELSE [r EXCEPT !.st = "n", !.bad = 1])
    [] OTHER -> [r EXCEPT !.bad = 1]

StepAsc(r, w, b) == IF b \in {0, 255, 8} THEN [r EXCEPT !.bad = 1] ELSE Plain(r, w, b)

StepAta(r, w, b) ==
  IF b = 155 THEN [r EXCEPT !.x = 0, !.y = r.y + 1]
  ELSE IF b \in {27, 28, 29, 30, 31, 125, 126, 127, 156, 157, 158, 159, 253, 254, 255} THEN [r EXCEPT !.bad = 1]      \* outside C15's domain
  ELSE IF b > 127 THEN Print1([r EXCEPT !.fg = 0, !.bg = 7], w, b - 128)
  ELSE Print1([r EXCEPT !.fg = 7, !.bg = 0], w, b)

Step(f, r, w, b) ==
  CASE f = "avt" -> StepAvt(r, w, b) [] f = "pcb" -> StepPcb(r, w, b) [] f = "msg" -> StepMsg(r, w, b)
    [] f = "an1" -> StepAn1(r, w, b) [] f = "asc" -> StepAsc(r, w, b) [] f = "ata" -> StepAta(r, w, b)

ReadFrom(f, r, w, bs) == FoldLeft(LAMBDA acc, b : Step(f, acc, w, b), r, bs)
ReadFile(f, w, bs) == ReadFrom(f, R0, w, bs)

ScreenAt(rows, x, y) == IF y <= Len(rows) /\ x <= Len(rows[y]) THEN rows[y][x] ELSE DefaultScreenCell
ModelMatchesF(f, rows, back) ==
  \A y \in 1..Max2(Len(rows), Len(back)) : \A x \in 1..Max2(RowLen(rows, y), RowLen(back, y)) :
    LET m == ScreenAt(rows, x, y) IN CellEqF(f, <<m[1], m[2], m[3], 0>>, CellAt(back, x, y))

(***************************************************************************)
(* (iii) Abstract writers.  AttrBytes: byte sequences that make the reader  *)
(* hold the colours <<fg, bg>>, starting from reader state r.               *)
(***************************************************************************)
Digits2(n) == <<48 + (n \div 10), 48 + (n % 10)>>
HexDigit(n) == IF n < 10 THEN 48 + n ELSE 55 + n
AttrBytes(f, r, fg, bg) ==
  CASE f = "avt" -> <<22, 1, fg + 16 * bg>>
    [] f = "pcb" -> <<64, 88, HexDigit(bg), HexDigit(fg)>>
    [] f = "an1" -> (IF fg # r.fg THEN <<124>> \o Digits2(fg) ELSE <<>>) \o (IF bg # r.bg THEN <<124>> \o Digits2(16 + bg) ELSE <<>>)
    [] f = "msg" ->
         LET reset == r.bold /\ fg < 8
             bfg == IF reset THEN 7 ELSE r.fg
             bbg == IF reset THEN 0 ELSE r.bg
             hi == fg >= 8 /\ (reset \/ ~r.bold)
             cfg == IF hi /\ bfg < 8 THEN bfg + 8 ELSE bfg IN
         (IF reset THEN <<1, 78>> ELSE <<>>) \o (IF hi THEN <<1, 72>> ELSE <<>>)
         \o (IF fg # cfg THEN <<1, FgLetters[(fg % 8) + 1]>> ELSE <<>>) \o (IF bg # bbg THEN <<1, BgDigits[bg + 1]>> ELSE <<>>)
    [] OTHER -> <<>>
EolBytes(f) == IF f = "ata" THEN <<155>> ELSE <<13, 10>>
CharByte(f, c) == IF f = "ata" /\ c[3] > 0 THEN c[1] + 128 ELSE c[1]
PrepBytes(f, prep) ==       \* screen preparation 0 none, 1 clear screen, 2 home - what each writer emits
  CASE f = "avt" /\ prep = 1 -> <<12>> [] f = "avt" /\ prep = 2 -> <<22, 8, 1, 1>>
    [] f = "pcb" /\ prep = 1 -> <<64, 67, 76, 83, 64>>
    [] f = "msg" /\ prep = 1 -> <<1, 76>> [] f = "msg" /\ prep = 2 -> <<1, 39>>
    [] OTHER -> <<>>
=============================================================================
