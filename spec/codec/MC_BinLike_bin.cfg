SPECIFICATION Spec
CONSTANTS Fmt = "bin"
          MaxW = 2
          MaxH = 3
          FontLen = 4
          AdfPalEntries = 64
          AdfWidth = 2
INVARIANT RoundTrip
INVARIANT TablesBack
INVARIANT PrefixTotal
CHECK_DEADLOCK FALSE
