SPECIFICATION Spec
CONSTANT RunBase = 64
INVARIANT Emit
CHECK_DEADLOCK FALSE
