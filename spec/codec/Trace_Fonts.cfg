SPECIFICATION Spec
CONSTANTS TableSize = 94
          NameLen = 12
POSTCONDITION Post
CHECK_DEADLOCK FALSE
