------------------------------ MODULE MC_XBin ------------------------------
(* R1 for C06: the ABSTRACT encoder of XBin compression.                       *)
(* The picture is chosen arbitrarily (Init); the encoder may emit, at every    *)
(* position, ANY run that the format document allows for the next cells        *)
(* (type 0: any cells; 1: equal characters; 2: equal attributes; 3: equal      *)
(* pairs; 1..MaxRun cells; not beyond the end of the row).  TLC explores every *)
(* such encoding of every picture and checks on completion that the stream is  *)
(* valid for the decoder of XBin.tla and decodes to the picture (EncoderSound) *)
(* - so "any valid stream that decodes to the picture" is a non-empty, sound   *)
(* specification of the compressor.                                            *)
(* A second action CrossRun emits what the document forbids - a run that       *)
(* carries on into the next row - and TLC checks that ValidStream rejects      *)
(* every such stream (CrossingRejected), i.e. the decoder really enforces the  *)
(* row rule.  JunkTotal: the decoder is total (no evaluation error, a verdict) *)
(* on every byte string up to length JunkLen.                                  *)
EXTENDS XBin, TLC, FiniteSets
CONSTANTS Chars, Attrs, W, H, JunkLen
VARIABLES pic, y, pos, out, crossed
vars == <<pic, y, pos, out, crossed>>

Cells == Chars \X Attrs
Pics == [1..H -> [1..W -> Cells]]
Flat(p) == [i \in 1..(W * H) |-> p[((i - 1) \div W) + 1][((i - 1) % W) + 1]]

Same(f, n) == \A i \in 1..n : f[i] = f[1]
\* the bytes of one run of type ty over the cells c[1..n]
RunBytes(ty, c, n) ==
  LET chs == [i \in 1..n |-> c[i][1]]  ats == [i \in 1..n |-> c[i][2]] IN
  <<ty * RunBase + (n - 1)>> \o
     (CASE ty = 0 -> [i \in 1..(2 * n) |-> IF i % 2 = 1 THEN chs[(i + 1) \div 2] ELSE ats[i \div 2]]
        [] ty = 1 -> <<chs[1]>> \o ats
        [] ty = 2 -> <<ats[1]>> \o chs
        [] OTHER  -> <<chs[1], ats[1]>>)
Matches(ty, c, n) ==
  LET chs == [i \in 1..n |-> c[i][1]]  ats == [i \in 1..n |-> c[i][2]] IN
  /\ ty = 1 => Same(chs, n)
  /\ ty = 2 => Same(ats, n)
  /\ ty = 3 => Same(chs, n) /\ Same(ats, n)

Advance(n) == IF pos + n = W + 1 THEN y' = y + 1 /\ pos' = 1 ELSE y' = y /\ pos' = pos + n

\* a run allowed by the format document
Run(ty, n) ==
  /\ y <= H /\ n >= 1 /\ n <= MaxRun /\ pos + n - 1 <= W
  /\ LET c == [i \in 1..n |-> pic[y][pos + i - 1]] IN Matches(ty, c, n) /\ out' = out \o RunBytes(ty, c, n)
  /\ Advance(n) /\ UNCHANGED <<pic, crossed>>

\* a run the document forbids: it continues into the next row (cells taken in video-memory order)
CrossRun(ty, n) ==
  /\ y < H /\ n >= 2 /\ n <= MaxRun /\ pos + n - 1 > W /\ pos + n - 1 <= 2 * W
  /\ LET f == Flat(pic)  base == (y - 1) * W + pos - 1
         c == [i \in 1..n |-> f[base + i]] IN Matches(ty, c, n) /\ out' = out \o RunBytes(ty, c, n)
  /\ y' = y + 1 /\ pos' = pos + n - W /\ crossed' = TRUE /\ UNCHANGED pic

Init == pic \in Pics /\ y = 1 /\ pos = 1 /\ out = <<>> /\ crossed = FALSE
Next == \E ty \in 0..3, n \in 1..(2 * W) : Run(ty, n) \/ CrossRun(ty, n)
Spec == Init /\ [][Next]_vars

Done == y = H + 1 /\ pos = 1
PicRows == [r \in 1..H |-> [i \in 1..W |-> pic[r][i]]]
EncoderSound == (Done /\ ~crossed) => (ValidStream(out, W, H) /\ DecodeRows(out, 1, W, H).rows = PicRows)
CrossingRejected == (Done /\ crossed) => ~ValidStream(out, W, H)
\* every run header the encoder produced is a legal header byte
HeadersInRange == \A i \in 1..Len(out) : out[i] < 4 * RunBase \/ out[i] \in Chars \cup Attrs

\* decoder totality on arbitrary bytes (evaluated once, at start-up)
RECURSIVE Strings(_)
Strings(k) == IF k = 0 THEN {<<>>} ELSE LET s == Strings(k - 1) IN s \cup {Append(x, v) : x \in s, v \in 0..(4 * RunBase - 1)}
JunkTotal == \A s \in Strings(JunkLen) : LET d == DecodeRows(s, 1, W, H) IN
                 /\ d.ok \in BOOLEAN
                 /\ (d.ok => Len(d.rows) = H /\ \A r \in 1..H : Len(d.rows[r]) = W)
                 /\ d.o <= Len(s) + 1
                 /\ (ValidStream(s, W, H) => d.o = Len(s) + 1)            \* no SAUCE in junk strings this short
ASSUME JunkTotal
\* raw image codec: DecodeRaw inverts the obvious writer
RawBytes(p) == LET f == Flat(p) IN [i \in 1..(2 * W * H) |-> f[(i + 1) \div 2][IF i % 2 = 1 THEN 1 ELSE 2]]
RawRoundTrip == out = <<>> => LET d == DecodeRaw(RawBytes(pic), 1, W, H) IN d.ok /\ d.rows = PicRows /\ d.o = 2 * W * H + 1
\* attribute byte meaning: CellOf inverts AttrByte on everything representable, for all 8 flag combinations
AttrByteInverse ==
  \A fl \in {0, 8, 16, 24} : \A fg \in 0..15, bg \in 0..15, bl \in 0..1, pg \in 0..1 :
     Representable(fg, bg, bl, pg, fl) =>
        LET c == CellOf(AttrByte(fg, bg, bl, pg, fl), fl) IN c.fg = fg /\ c.bg = bg /\ c.bl = bl /\ c.pg = pg
ASSUME AttrByteInverse
=============================================================================
