------------------------------ MODULE Gen_XBin ------------------------------
(* R2 for C06: exports the small-scope domain of the property (alphabets and   *)
(* width bounds defined in XBin.tla) as one witness per (kind, width).  The    *)
(* Rust driver enumerates the rows of every exported class; Trace_XBin         *)
(* re-validates that every recorded row lies in the class and counts them, and *)
(* tools/props/c06.py compares the counts with the size of the class.          *)
EXTENDS XBin, TLC, Json
VARIABLES kind, w
vars == <<kind, w>>
Init == \/ kind = "exh3" /\ w \in 1..Small3MaxW
        \/ kind = "exh2" /\ w \in 1..Small2MaxW
Next == UNCHANGED vars
Spec == Init /\ [][Next]_vars
Emit == PrintT(<<"WITNESS", ToJson(
          IF kind = "exh3" THEN [kind |-> kind, w |-> w, chars |-> Small3Chars, attrs |-> Small3Attrs, pages |-> Small3Pages]
          ELSE [kind |-> kind, w |-> w, chars |-> Small2Chars, attrs |-> Small2Attrs, pages |-> <<0>>])>>)
=============================================================================
