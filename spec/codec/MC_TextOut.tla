----------------------------- MODULE MC_TextOut -----------------------------
(* R1 for C15: for each of the six formats, every screen preparation, every    *)
(* row of width <= MaxW over six cell kinds on a screen as wide as the row and  *)
(* one wider, and every byte stream the abstract writer can emit (attribute     *)
(* codes on change or always, Avatar repeats of every length, trailing          *)
(* blank-on-black cells dropped or not), the reader model's screen is           *)
(* equivalent to the row and the next row starts at column 0 of the next line.  *)
(* Also the generator of attribute pairs / row shapes (R2).                     *)
EXTENDS TextOut, TLC, Json
CONSTANTS MaxW

Alphabet == << <<32, 7, 0, 0>>, <<65, 7, 0, 0>>, <<65, 12, 3, 0>>, <<66, 4, 0, 0>>, <<32, 7, 5, 0>>, <<66, 15, 7, 0>> >>
Cells == 1..6
Rows == UNION { [1..n -> Cells] : n \in 0..MaxW }
Marker == 90

\* what a format can hold of a cell
Proj(f, c) == IF f = "asc" THEN <<c[1], 7, 0, 0>> ELSE IF f = "ata" THEN (IF c[3] > 0 THEN <<c[1], 0, 7, 0>> ELSE <<c[1], 7, 0, 0>>) ELSE c

VARIABLES fmt, prep, row, W, i, r, wrapped, out, done, c
vars == <<fmt, prep, row, W, i, r, wrapped, out, done, c>>

Cell(k) == Proj(fmt, Alphabet[row[k]])
Apply(rd, bs) == ReadFrom(fmt, rd, W, bs)

Init ==
  /\ fmt \in Formats /\ prep \in 0..2 /\ row \in Rows
  /\ W \in {IF Len(row) = 0 THEN 1 ELSE Len(row), Len(row) + 1}
  /\ i = 1 /\ wrapped = FALSE /\ done = FALSE /\ c = 0
  /\ out = PrepBytes(fmt, prep)
  /\ r = ReadFrom(fmt, R0, W, out)

SameRun(k) == CHOOSE n \in 1..(Len(row) - k + 1) : (\A j \in 0..(n - 1) : row[k + j] = row[k]) /\ (k + n > Len(row) \/ row[k + n] # row[k])
Droppable(k) == \A j \in k..Len(row) : Blank(Cell(j)[1]) /\ Cell(j)[3] = 0          \* blank on black up to the end of the row

Emit ==
  /\ ~done /\ i <= Len(row)
  /\ \E always \in BOOLEAN, n \in 1..SameRun(i), rep \in BOOLEAN :
       /\ (rep => fmt = "avt") /\ (~rep => n = 1)
       /\ LET cc == Cell(i)
              ab == IF fmt \in ColourFormats /\ (always \/ cc[2] # r.fg \/ cc[3] # r.bg) THEN AttrBytes(fmt, r, cc[2], cc[3]) ELSE <<>>
              cb == IF rep THEN <<25, CharByte(fmt, cc), n>> ELSE <<CharByte(fmt, cc)>>
              bs == ab \o cb IN
          /\ out' = bs /\ r' = Apply(r, bs) /\ i' = i + n /\ wrapped' = (i + n - 1 = W)
  /\ UNCHANGED <<fmt, prep, row, W, done, c>>

Trim == /\ ~done /\ i <= Len(row) /\ Droppable(i)
        /\ i' = Len(row) + 1 /\ out' = <<>> /\ UNCHANGED <<fmt, prep, row, W, r, wrapped, done, c>>

Finish ==
  /\ ~done /\ i = Len(row) + 1
  /\ LET bs == (IF wrapped THEN <<>> ELSE EolBytes(fmt)) \o <<Marker>> IN out' = bs /\ r' = Apply(r, bs)
  /\ done' = TRUE /\ UNCHANGED <<fmt, prep, row, W, i, wrapped, c>>

Next == Emit \/ Trim \/ Finish
Spec == Init /\ [][Next]_vars

ReaderTotal == r.bad = 0
RoundTrip ==
  done =>
    /\ \A x \in 1..W : LET m == ScreenAt(r.rows, x, 1) IN CellEqF(fmt, IF x <= Len(row) THEN Cell(x) ELSE DefaultCell, <<m[1], m[2], m[3], 0>>)
    /\ ScreenAt(r.rows, 1, 2)[1] = Marker /\ Len(r.rows) = 2 /\ Len(r.rows[2]) = 1 /\ Len(r.rows[1]) <= W

(***************************************************************************)
(* Generator: all ordered pairs of the 16 x 8 attributes, and row shapes    *)
(* (three rows with lengths from the classes 0, 1, 2, w-1, w; last row not  *)
(* empty) x screen preparation.                                             *)
(***************************************************************************)
Pairs == { [kind |-> "pair", fg1 |-> a, bg1 |-> b, fg2 |-> d, bg2 |-> e, lens |-> <<>>, prep |-> 0] : a \in 0..15, b \in 0..7, d \in 0..15, e \in 0..7 }
Shapes == { [kind |-> "shape", fg1 |-> 0, bg1 |-> 0, fg2 |-> 0, bg2 |-> 0, lens |-> <<l1, l2, l3>>, prep |-> p] : l1 \in 0..4, l2 \in 0..4, l3 \in 1..4, p \in 0..2 }
GenInit == /\ c \in Pairs \cup Shapes
           /\ fmt = "asc" /\ prep = 0 /\ row = <<>> /\ W = 1 /\ i = 1 /\ r = R0 /\ wrapped = FALSE /\ out = <<>> /\ done = TRUE
GenSpec == GenInit /\ [][UNCHANGED vars]_vars
Emit0 == PrintT(<<"WITNESS", ToJson(c)>>)
=============================================================================
