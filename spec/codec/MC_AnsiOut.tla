----------------------------- MODULE MC_AnsiOut -----------------------------
(* R1 for C04: for every row of width <= MaxW over an alphabet of eight cells, *)
(* every ice mode, a screen as wide as the row and one column wider, and every  *)
(* token stream the abstract writer of AnsiOut.tla can emit (with or without    *)
(* SGR reset, cursor-forward runs of every length, repeat sequences of every    *)
(* length, trimming of trailing blanks), the reader model yields a screen that  *)
(* is display-equivalent to the row, and the next row starts at column 0 of the *)
(* next line.  Also the generator of configurations / small buffers (R2).       *)
EXTENDS AnsiOut, TLC, Json
CONSTANTS MaxW,        \* rows up to this width
          EolRule      \* "design": CR LF unless the row's last cell was printed in the last column
                       \* "engine": CR LF iff fewer cells than the width were covered (StringGenerator::generate)

Pal == Dos16 \o << <<18, 52, 86>> >>
Alphabet == << <<32, 7, 0, 0>>,      \* 0 blank, default
               <<32, 7, 4, 0>>,      \* 1 blank on colour
               <<32, 7, 0, 2>>,      \* 2 blinking blank
               <<65, 7, 0, 0>>,      \* 3 A, default colours
               <<65, 4, 2, 0>>,      \* 4 A in colours
               <<65, 12, 0, 0>>,     \* 5 A bright
               <<65, 7, 9, 0>>,      \* 6 A on bright (ice) background
               <<65, 16, 0, 0>> >>   \* 7 A in an RGB colour
Cells == 1..8
Rows == UNION { [1..n -> Cells] : n \in 0..MaxW }
IceModes == {"blink", "ice", "unlimited"}
Marker == 90

VARIABLES row, W, ice, i, r, wrapped, covered, toks, done, c
vars == <<row, W, ice, i, r, wrapped, covered, toks, done, c>>

Cell(k) == Alphabet[row[k]]
Target(k) == TargetRendition(Cell(k), ice, Pal)
Apply(rd, ts) == ReadFrom(rd, W, ts)

Init ==
  /\ row \in Rows /\ ice \in IceModes
  /\ W \in {IF Len(row) = 0 THEN 1 ELSE Len(row), Len(row) + 1}
  /\ i = 1 /\ wrapped = FALSE /\ covered = 0 /\ done = FALSE /\ c = 0
  /\ toks = IF ice = "ice" THEN << <<1, 104, 63, 0, 33>> >> ELSE <<>>
  /\ r = ReadFrom(R0, W, toks)

SameRun(k) == CHOOSE n \in 1..(Len(row) - k + 1) : (\A j \in 0..(n - 1) : row[k + j] = row[k]) /\ (k + n > Len(row) \/ row[k + n] # row[k])
SkipRun(k) == CHOOSE n \in 0..(Len(row) - k + 1) : (\A j \in 0..(n - 1) : Skippable(Cell(k + j), ice, Pal)) /\ (k + n > Len(row) \/ ~Skippable(Cell(k + n), ice, Pal))

\* print cell i (optionally followed by a repeat sequence for k further identical cells)
Emit ==
  /\ ~done /\ i <= Len(row)
  /\ \E reset \in BOOLEAN, k \in 0..(SameRun(i) - 1) :
       LET ts == SgrFor(RenditionOf(r), Target(i), reset) \o << <<0, Cell(i)[1]>> >> \o (IF k > 0 THEN << <<1, 98, 0, 0, k>> >> ELSE <<>>) IN
       /\ toks' = ts
       /\ r' = Apply(r, ts)
       /\ i' = i + 1 + k
       /\ covered' = i + k
       /\ wrapped' = (i + k = W)
  /\ UNCHANGED <<row, W, ice, done, c>>

\* skip n cells that show nothing with a cursor-forward
Skip ==
  /\ ~done /\ i <= Len(row) /\ SkipRun(i) > 0
  /\ \E n \in 1..SkipRun(i) :
       LET ts == << <<1, 67, 0, 0, n>> >> IN
       /\ toks' = ts /\ r' = Apply(r, ts) /\ i' = i + n /\ covered' = i + n - 1 /\ wrapped' = FALSE
  /\ UNCHANGED <<row, W, ice, done, c>>

\* drop the rest of the row when it shows nothing
Trim ==
  /\ ~done /\ i <= Len(row) /\ SkipRun(i) = Len(row) - i + 1
  /\ i' = Len(row) + 1 /\ toks' = <<>> /\ UNCHANGED <<row, W, ice, r, wrapped, covered, done, c>>

\* end of the row, then the first character of the next row
Finish ==
  /\ ~done /\ i = Len(row) + 1
  /\ LET crlf == IF EolRule = "design" THEN ~wrapped ELSE covered < W
         ts == (IF crlf THEN << <<0, 13, 10>> >> ELSE <<>>) \o << <<0, Marker>> >> IN
     /\ toks' = ts /\ r' = Apply(r, ts)
  /\ done' = TRUE
  /\ UNCHANGED <<row, W, ice, i, wrapped, covered, c>>

Next == Emit \/ Skip \/ Trim \/ Finish
Spec == Init /\ [][Next]_vars

\* every emitted token belongs to the writer grammar
Grammar == \A k \in 1..Len(toks) : ValidToken(toks[k])
\* the reader model is defined on everything the writer emits
ReaderTotal == r.bad = 0
\* C04 on the design
RoundTrip ==
  done =>
    /\ \A x \in 1..W : ShownEq(ShownAt(r.rows, x, 1), Shown(IF x <= Len(row) THEN Cell(x) ELSE DefaultCell, ice, Pal))
    /\ ShownAt(r.rows, 1, 2)[1] = Marker /\ Len(r.rows) = 2 /\ Len(r.rows[2]) = 1 /\ Len(r.rows[1]) <= W

\* the display equivalence is an equivalence relation on shown cells (checked once)
SomeShown == { Shown(Alphabet[k], m, Pal) : k \in Cells, m \in IceModes } \cup { <<0, <<1, 2, 3>>, <<0, 0, 0>>, 0>>, <<255, <<9, 9, 9>>, <<0, 0, 0>>, 0>> }
ASSUME \A a \in SomeShown : ShownEq(a, a)
ASSUME \A a \in SomeShown, b \in SomeShown : ShownEq(a, b) => ShownEq(b, a)
ASSUME \A a \in SomeShown, b \in SomeShown, d \in SomeShown : ShownEq(a, b) /\ ShownEq(b, d) => ShownEq(a, d)
\* the arithmetic DosIndex agrees with its definition
ASSUME \A rgb \in {Dos16[k] : k \in 1..16} \cup {<<170, 170, 0>>, <<0, 85, 0>>, <<85, 85, 170>>, <<18, 52, 86>>, <<255, 255, 254>>} : DosIndex(rgb) = DosIndexSpec(rgb)
\* xterm-256 table: cube and grey ramp corner values
ASSUME Xterm(16) = <<0, 0, 0>> /\ Xterm(231) = <<255, 255, 255>> /\ Xterm(232) = <<8, 8, 8>> /\ Xterm(255) = <<238, 238, 238>> /\ Xterm(196) = <<255, 0, 0>>

(***************************************************************************)
(* Generator (Gen_AnsiOut.cfg): the complete option space and the small-    *)
(* scope buffers; one initial state each, printed by Emit0.                 *)
(***************************************************************************)
B == 0..1
Cfgs == { [kind |-> "cfg", sauce |-> a1, compress |-> a2, cuf |-> a3, rep |-> a4, preserve |-> a5, longer |-> a6, extcol |-> a7, normws |-> a8,
           prep |-> p, ctrl |-> cc, ice |-> m, w |-> 0, place |-> 0, rows |-> <<>>] :
          a1 \in B, a2 \in B, a3 \in B, a4 \in B, a5 \in B, a6 \in B, a7 \in B, a8 \in B, p \in 0..2, cc \in 0..2, m \in 0..2 }
A0 == 0..7
Pat(n) == [1..n -> A0]
Buf(w, place, rows) == [kind |-> "buf", sauce |-> 0, compress |-> 0, cuf |-> 0, rep |-> 0, preserve |-> 0, longer |-> 0, extcol |-> 0, normws |-> 0,
                        prep |-> 0, ctrl |-> 0, ice |-> 0, w |-> w, place |-> place, rows |-> rows]
Bufs ==
  { Buf(w, 0, <<p>>) : w \in 1..3, p \in UNION { Pat(n) : n \in 1..3 } } \cup                     \* one row, widths 1..3 (longer patterns are cut)
  { Buf(w, 0, <<p, q>>) : w \in 1..2, p \in Pat(2), q \in Pat(2) } \cup                           \* two rows, widths 1..2
  { Buf(w, pl, <<p>>) : w \in {79, 80}, pl \in B, p \in UNION { Pat(n) : n \in 1..3 } } \cup      \* a pattern at the left / right margin
  { Buf(w, pl, <<p, <<3>> >>) : w \in {79, 80}, pl \in B, p \in UNION { Pat(n) : n \in 1..2 } }   \* ... followed by a second row

GenInit == /\ c \in Cfgs \cup Bufs
           /\ row = <<>> /\ W = 1 /\ ice = "blink" /\ i = 1 /\ r = R0 /\ wrapped = FALSE /\ covered = 0 /\ toks = <<>> /\ done = TRUE
GenSpec == GenInit /\ [][UNCHANGED vars]_vars
Emit0 == PrintT(<<"WITNESS", ToJson(c)>>)
=============================================================================
