--------------------------- MODULE MC_XBinCompressor ---------------------------
(* R1 for the implementation-shaped compressor model: every row of width 1..W     *)
(* over Chars x Attrs x Pages is one reachable state.                           *)
(*   StreamValid   the transcribed compressor always emits a valid row            *)
(*   SoundModuloPage  it decodes to the row, except possibly for the font-page    *)
(*                 bit (bit 3) - the defect of the unrepaired code                *)
(*   SoundOnePage  exact when the row uses one font page                          *)
(*   FixedSound    with FixPages (the proposed repair) it is exact for every row  *)
(*   NoLongerThanRawPlus  never longer than one "no compression" run per RunBase  *)
(* The defect itself is exhibited by cfg MC_XBinCompressor_defect.cfg, whose       *)
(* invariant UnfixedSound TLC is expected to refute (tools/props/c06.py checks    *)
(* that it does).                                                                  *)
EXTENDS XBinCompressor, TLC
CONSTANTS Chars, Attrs, Pages, W
VARIABLES row
Cell(c, a, p) == <<c, a, p, a + 8 * p>>
AllCells == {Cell(c, a, p) : c \in Chars, a \in Attrs, p \in Pages}
Init == row = <<>>
Next == Len(row) < W /\ \E c \in AllCells : row' = Append(row, c)
Spec == Init /\ [][Next]_row

Dec(fix) == DecodeRow(CompressRow(row, fix), 1, Len(row), <<>>)
StreamValid == \A fix \in BOOLEAN : LET d == Dec(fix) IN d.ok /\ d.o = Len(CompressRow(row, fix)) + 1
SameButBit3(a, b) == a[1] = b[1] /\ a[2] \div 16 = b[2] \div 16 /\ a[2] % 8 = b[2] % 8
SoundModuloPage == LET d == Dec(FALSE) IN \A i \in 1..Len(row) : SameButBit3(d.cells[i], Target(row)[i])
SoundOnePage == (\A i \in 1..Len(row) : Pg(row[i]) = Pg(row[1])) => Dec(FALSE).cells = Target(row)
FixedSound == Dec(TRUE).cells = Target(row)
UnfixedSound == Dec(FALSE).cells = Target(row)
NoLongerThanRawPlus == \A fix \in BOOLEAN : Len(CompressRow(row, fix)) <= 2 * Len(row) + ((Len(row) + RunBase - 1) \div RunBase) + Len(row) \div 2
=============================================================================
