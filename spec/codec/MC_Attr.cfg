SPECIFICATION Spec
INVARIANT InvDecEnc
INVARIANT InvEncDec
CHECK_DEADLOCK FALSE
