SPECIFICATION Spec
CONSTANT Full16 = FALSE
INVARIANT Table16
INVARIANT Table32
INVARIANT Slice16
INVARIANT CheckValues
CHECK_DEADLOCK FALSE
