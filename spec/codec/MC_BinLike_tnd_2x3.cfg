SPECIFICATION Spec
CONSTANTS Fmt = "tnd"
          MaxW = 2
          MaxH = 3
          FontLen = 4
          AdfPalEntries = 64
          AdfWidth = 2
INVARIANT RoundTrip
INVARIANT TablesBack
CHECK_DEADLOCK FALSE
