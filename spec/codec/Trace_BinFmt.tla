----------------------------- MODULE Trace_BinFmt -----------------------------
(* C05: binary art formats reproduce what was saved.  Events (harness/src/binfmt.rs): *)
(*  rt{fmt, compress, sauce, mode, src, save, bytes (small cases), load, back, ml}    *)
(*  rs{fmt, origin, p1, save, l2, p2}                                                 *)
(* A picture = [w, h, ice, ch, fg, bg, pal, fonts, blank, solid, rows]:               *)
(*   ch[i] = character + 256*blink + 512*font page; fg/bg[i] = displayed RGB          *)
(*   (r*65536 + g*256 + b, through the palette, bold folded into the bright colour);  *)
(*   cells row-major, the first `rows` rows are recorded (all of them unless the      *)
(*   reloaded picture is far taller than the source); ice = 1 iff IceMode::Ice;       *)
(*   pal = first 16 palette colours; fonts = [h, w, n, crc (two halves), data];       *)
(*   blank / solid = per font page the codes whose glyph has no / only set pixels.    *)
(*                                                                                   *)
(* Property layer (the sentence of properties.jsonl, weakest reading):                *)
(*   Outcome   saving a picture inside the representable set and loading it succeed   *)
(*   SizeEq    same width and height                                                  *)
(*   CharEq    same character (incl. font page = 9th character bit) in every cell     *)
(*   ColourEq  same displayed fg / bg RGB; the fg of a glyph without set pixels and   *)
(*             the bg of a glyph without clear pixels are not displayed; 6-bit        *)
(*             formats are compared after 6-bit reduction                             *)
(*   BlinkEq   same blink state (where the glyph has set pixels)                      *)
(*   ModeEq    same blink/ice mode ("bit 7 = bright background" <=> Ice)              *)
(*   FontEq    identical glyph tables (of the font pages in use) where the format     *)
(*             embeds them (xb, adf, idf)                                             *)
(*   PaletteEq identical 16 colours after 6-bit reduction (xb, adf, idf)              *)
(*   second half: the same relation between the first load of an accepted byte string *)
(*   and its save -> load image (judged when save and second load succeed).           *)
(* Model layer (drift): the decoders of XBin.tla / BinLike.tla read the written bytes *)
(* as the source picture (writer vs. format document) and as the reloaded picture     *)
(* (reader vs. format document).                                                      *)
EXTENDS XBin, BinLike, TraceLib, FiniteSets
VARIABLES l
vars == <<l>>
Init == l = 1 /\ InitRegs

SixBit(fmt) == fmt \in {"xb", "adf", "idf"}
EmbedsFont(fmt) == fmt \in {"xb", "adf", "idf"}
Red(c) == ((c \div 65536) \div 4) * 4096 + (((c \div 256) % 256) \div 4) * 64 + ((c % 256) \div 4)
ColEq(a, b, six) == a = b \/ (six /\ Red(a) = Red(b))
Chr(code) == code % 256
Bl(code) == (code \div 256) % 2
Pg(code) == code \div 512

\* glyph classes of the reference picture (a): is the fg / bg of cell code displayed?
ShowsFg(blank, code) == Pg(code) > 1 \/ Chr(code) \notin blank[Pg(code) + 1]
ShowsBg(solid, code) == Pg(code) > 1 \/ Chr(code) \notin solid[Pg(code) + 1]

\* number of cells compared: the rows both pictures recorded
Common(a, b) == IF a.w = b.w /\ a.w > 0 THEN a.w * ((IF Len(a.ch) < Len(b.ch) THEN Len(a.ch) ELSE Len(b.ch)) \div a.w) ELSE 0
SizeOk(a, b) == a.w = b.w /\ a.h = b.h
\* on the common rows (all rows when the sizes agree)
CharBad(a, b, n) == {i \in 1..n : Chr(a.ch[i]) # Chr(b.ch[i]) \/ Pg(a.ch[i]) # Pg(b.ch[i])}
CharOk(a, b, n) == SubSeq(a.ch, 1, n) = SubSeq(b.ch, 1, n) \/ CharBad(a, b, n) = {}
BgBad(a, b, n, six, solid) == {i \in 1..n : ShowsBg(solid, a.ch[i]) /\ ~ColEq(a.bg[i], b.bg[i], six)}
FgBad(a, b, n, six, blank) == {i \in 1..n : ShowsFg(blank, a.ch[i]) /\ ~ColEq(a.fg[i], b.fg[i], six)}
ColourOk(a, b, n, six, blank, solid) ==
  /\ (SubSeq(a.bg, 1, n) = SubSeq(b.bg, 1, n) \/ BgBad(a, b, n, six, solid) = {})
  /\ (SubSeq(a.fg, 1, n) = SubSeq(b.fg, 1, n) \/ FgBad(a, b, n, six, blank) = {})
BlinkBad(a, b, n, blank) == {i \in 1..n : ShowsFg(blank, a.ch[i]) /\ Bl(a.ch[i]) # Bl(b.ch[i])}
BlinkOk(a, b, n, blank) == SubSeq(a.ch, 1, n) = SubSeq(b.ch, 1, n) \/ BlinkBad(a, b, n, blank) = {}
ModeOk(a, b) == a.ice = b.ice
FontSame(f, g) == f.h = g.h /\ f.w = g.w /\ f.n = g.n /\ f.crc = g.crc /\ (Len(f.data) > 0 /\ Len(g.data) > 0 => f.data = g.data)
\* the glyph tables of the font pages the picture uses (page 0 always); an embedded but unused second font is not part of the picture
UsedPages(a) == {0} \cup {Pg(a.ch[i]) : i \in 1..Len(a.ch)}
FontOk(a, b) == \A k \in UsedPages(a) \cap {0, 1} : k + 1 <= Len(a.fonts) => (k + 1 <= Len(b.fonts) /\ FontSame(a.fonts[k + 1], b.fonts[k + 1]))
\* Re-save half ("gives the same picture as the first load"): a writer may drop an embedded font that no cell uses and renumber
\* the font pages; what has to stay is the glyph every cell shows - identified by the glyph table it comes from and the code in it
GlyphOf(p, i) == LET k == Pg(p.ch[i]) IN << IF k + 1 <= Len(p.fonts) THEN <<p.fonts[k + 1].crc, p.fonts[k + 1].h>> ELSE <<>>, Chr(p.ch[i]) >>
GlyphBad(a, b, n) == {i \in 1..n : GlyphOf(a, i) # GlyphOf(b, i)}
CharOkH(a, b, n, half) == IF half = "Resave" THEN (CharOk(a, b, n) \/ GlyphBad(a, b, n) = {}) ELSE CharOk(a, b, n)
CharBadH(a, b, n, half) == IF half = "Resave" THEN GlyphBad(a, b, n) ELSE CharBad(a, b, n)
FontOkH(a, b, n, half) == IF half = "Resave" THEN (FontOk(a, b) \/ GlyphBad(a, b, n) = {}) ELSE FontOk(a, b)
PalOk(a, b) == Len(a.pal) = Len(b.pal) /\ \A k \in 1..Len(a.pal) : \A j \in 1..3 : a.pal[k][j] \div 4 = b.pal[k][j] \div 4

RGB(t) == t[1] * 65536 + t[2] * 256 + t[3]
\* ---- diagnostics (evaluated only when a predicate fails)
MinOf(S) == CHOOSE m \in S : \A n \in S : m <= n
SizeKind(a, b, n, fmt) ==
  IF a.w = b.w /\ a.h < 25 /\ b.h = 25 THEN "height<25-loads-as-25"
  ELSE IF a.w = b.w /\ b.h > a.h THEN "taller" ELSE IF a.w = b.w THEN "shorter" ELSE "width"
CharKind(a, b, bad) == IF \A i \in bad : Chr(a.ch[i]) = Chr(b.ch[i]) THEN "fontpage-only" ELSE "char"
ColourKind(a, bad) == IF \A i \in bad : Chr(a.ch[i]) \in 1..6 THEN "chars-1-6" ELSE IF \A i \in bad : Chr(a.ch[i]) \in 0..31 THEN "control-chars" ELSE "cells"
\* does the reference picture contain the cell that IDF uses as its escape word (character 1 in colour 0 on colour 0)?
HasEscCell(a) == Len(a.pal) > 0 /\ \E i \in 1..Len(a.ch) : Chr(a.ch[i]) = 1 /\ a.fg[i] = RGB(a.pal[1]) /\ a.bg[i] = RGB(a.pal[1])
CellInfo(a, b, bad, kind, half, e) ==
  [half |-> half, fmt |-> e.fmt, kind |-> kind, esc |-> IF e.fmt = "idf" /\ HasEscCell(a) THEN 1 ELSE 0, compress |-> e.compress, nbad |-> Cardinality(bad), at |-> MinOf(bad) - 1, w |-> a.w, h |-> a.h,
   a |-> <<a.ch[MinOf(bad)], a.fg[MinOf(bad)], a.bg[MinOf(bad)]>>, b |-> <<b.ch[MinOf(bad)], b.fg[MinOf(bad)], b.bg[MinOf(bad)]>>, id |-> e.id]
Basic(a, b, kind, half, e) == [half |-> half, fmt |-> e.fmt, kind |-> kind, esc |-> IF e.fmt = "idf" /\ HasEscCell(a) THEN 1 ELSE 0, compress |-> e.compress, w |-> a.w, h |-> a.h, bw |-> b.w, bh |-> b.h, id |-> e.id]

\* ---- Tundra colour failures are attributed cell by cell to one explanation each, so that every class has its own key
FgBadAt(a, b, i, blank) == ShowsFg(blank, a.ch[i]) /\ a.fg[i] # b.fg[i]
BgBadAt(a, b, i, solid) == ShowsBg(solid, a.ch[i]) /\ a.bg[i] # b.bg[i]
P0(a) == IF Len(a.pal) > 0 THEN RGB(a.pal[1]) ELSE 0
TndClass(a, b, i, blank, solid) ==
  IF Chr(a.ch[i]) \in 1..6 THEN "chars-1-6"                                            \* written as a fake colour record carrying the previous colours
  ELSE IF FgBadAt(a, b, i, blank) /\ ~BgBadAt(a, b, i, solid) /\ a.fg[i] = 0 THEN "initial-black-fg"   \* reader starts with foreground index 7 of an empty palette
  ELSE IF P0(a) # 0 /\ (FgBadAt(a, b, i, blank) => a.fg[i] = P0(a)) /\ (BgBadAt(a, b, i, solid) => a.bg[i] = P0(a)) THEN "palette0-not-black"  \* writer assumes the file starts in palette colour 0
  ELSE "cells"
TndBadCells(a, b, n, blank, solid, class) == {i \in 1..n : (FgBadAt(a, b, i, blank) \/ BgBadAt(a, b, i, solid)) /\ TndClass(a, b, i, blank, solid) = class}
TndColourChecks(a, b, n, e, half, blank, solid) ==
  \A class \in {"chars-1-6", "initial-black-fg", "palette0-not-black", "cells"} :
     Check(TndBadCells(a, b, n, blank, solid, class) = {}, "C05", "ColourEq", l, CellInfo(a, b, TndBadCells(a, b, n, blank, solid, class), class, half, e))

\* PictureEq(a, b): a = reference picture (source / first load), b = reloaded; n = cells on the common rows
PictureChecks(a, b, n, e, half, six, blank, solid) ==
  /\ Check(SizeOk(a, b), "C05", "SizeEq", l, Basic(a, b, SizeKind(a, b, n, e.fmt), half, e))
  /\ Check(CharOkH(a, b, n, half), "C05", "CharEq", l, CellInfo(a, b, CharBadH(a, b, n, half), CharKind(a, b, CharBadH(a, b, n, half)), half, e))
  /\ (IF ColourOk(a, b, n, six, blank, solid) THEN TRUE
      ELSE IF e.fmt = "tnd" THEN TndColourChecks(a, b, n, e, half, blank, solid)
      ELSE Viol("C05", "ColourEq", l, CellInfo(a, b, BgBad(a, b, n, six, solid) \cup FgBad(a, b, n, six, blank), "cells", half, e)))
  /\ Check(BlinkOk(a, b, n, blank), "C05", "BlinkEq", l, CellInfo(a, b, BlinkBad(a, b, n, blank), "blink", half, e))
  /\ Check(ModeOk(a, b), "C05", "ModeEq", l, Basic(a, b, IF a.ice = 1 THEN "ice->blink" ELSE "blink->ice", half, e))
  /\ (IF EmbedsFont(e.fmt) THEN Check(FontOkH(a, b, n, half), "C05", "FontEq", l, Basic(a, b, "fonts", half, e)) ELSE TRUE)
  /\ (IF SixBit(e.fmt) THEN Check(PalOk(a, b), "C05", "PaletteEq", l, Basic(a, b, "palette", half, e)) ELSE TRUE)
AllEq(a, b, n, e, six, blank, solid) ==
  SizeOk(a, b) /\ CharOk(a, b, n) /\ ColourOk(a, b, n, six, blank, solid) /\ BlinkOk(a, b, n, blank) /\ ModeOk(a, b) /\ FontOk(a, b) /\ PalOk(a, b)
\* one input class is judged as a whole: an IDF picture that contains the format's escape word (character 1, attribute 0) as a
\* cell, saved with the repeat compression - a mis-escaped stream shifts everything behind it (size, cells, font, palette)
IdfEscClass(a, e) == e.fmt = "idf" /\ e.compress = 1 /\ HasEscCell(a)
PictureEqWith(a, b, e, half, blank, solid) ==
  IF IdfEscClass(a, e)
  THEN Check(AllEq(a, b, Common(a, b), e, TRUE, blank, solid), "C05", "PictureEq", l, Basic(a, b, "idf-compressed-escape-cell", half, e))
  ELSE PictureChecks(a, b, Common(a, b), e, half, SixBit(e.fmt), blank, solid)
PictureEq(a, b, e, half) == PictureEqWith(a, b, e, half, [k \in 1..2 |-> ToSet(a.blank[k])], [k \in 1..2 |-> ToSet(a.solid[k])])

\* ---- the stated domain (otherwise the generator is wrong, not the engine)
InDomain(e) ==
  LET s == e.src IN
  /\ Len(s.ch) = s.w * s.h /\ Len(s.fg) = s.w * s.h /\ Len(s.bg) = s.w * s.h /\ s.w >= 1 /\ s.h >= 1
  /\ CASE e.fmt = "xb"  -> s.w <= 4096 /\ s.h <= 200 /\ e.mode \in 0..2 /\ s.npal = 16 /\ e.nfonts \in 1..2
       [] e.fmt = "bin" -> s.w % 2 = 0 /\ s.w <= 510 /\ e.sauce = 1
       [] e.fmt = "adf" -> s.w = 80 /\ e.mode = 2 /\ s.npal = 16
       [] e.fmt = "idf" -> s.w <= 80 /\ s.h <= 200 /\ e.mode = 2 /\ s.npal = 16
       [] e.fmt = "tnd" -> e.sauce = 1 /\ e.mode = 2
       [] OTHER -> FALSE
  /\ (e.fmt = "tnd" => \A i \in 1..Len(s.ch) : Bl(s.ch[i]) = 0)
  /\ (e.mode = 2 => s.ice = 1) /\ (e.mode # 2 => s.ice = 0)
  /\ (SixBit(e.fmt) => \A k \in 1..Len(s.pal) : \A j \in 1..3 : Expand6(s.pal[k][j] \div 4) = s.pal[k][j])

\* ---- model layer: what the format documents say the written bytes contain
Flat(rows, w, h) == [i \in 1..(w * h) |-> rows[((i - 1) \div w) + 1][((i - 1) % w) + 1]] \o <<>>
\* rows of <<ch, at>> under attribute mode m (Attr.tla) and palette pal (16 RGB triples), font page from bit 3 when ext
AttrPicture(rows, w, h, m, ext, pal, ice) ==
  [w |-> w, h |-> h, ice |-> ice,
   ch |-> [i \in 1..(w * h) |-> rows[((i - 1) \div w) + 1][((i - 1) % w) + 1][1]
                               + 256 * Decode(rows[((i - 1) \div w) + 1][((i - 1) % w) + 1][2], m).bl
                               + (IF ext THEN 512 * ((rows[((i - 1) \div w) + 1][((i - 1) % w) + 1][2] \div 8) % 2) ELSE 0)] \o <<>>,
   fg |-> [i \in 1..(w * h) |-> RGB(pal[(IF ext THEN Decode(rows[((i - 1) \div w) + 1][((i - 1) % w) + 1][2], m).fg % 8 ELSE Decode(rows[((i - 1) \div w) + 1][((i - 1) % w) + 1][2], m).fg) + 1])] \o <<>>,
   bg |-> [i \in 1..(w * h) |-> RGB(pal[Decode(rows[((i - 1) \div w) + 1][((i - 1) % w) + 1][2], m).bg + 1])] \o <<>>]
Pal8(p6) == [k \in 1..Len(p6) |-> <<Expand6(p6[k][1]), Expand6(p6[k][2]), Expand6(p6[k][3])>>] \o <<>>
NoPic == [w |-> 0, h |-> 0, ice |-> 0, ch |-> <<>>, fg |-> <<>>, bg |-> <<>>]
XbPicture(d) ==
  IF ~d.ok THEN NoPic
  ELSE AttrPicture(d.rows, d.hd.w, d.hd.h, AttrMode(d.hd.flags), HasFlag(d.hd.flags, Flag512), IF d.pal = <<>> THEN Dos16 ELSE Pal8(d.pal), IF HasFlag(d.hd.flags, FlagNonBlink) THEN 1 ELSE 0)
BinPicture(d, ice) == IF ~d.ok THEN NoPic ELSE AttrPicture(d.rows, d.w, d.h, IF ice = 1 THEN 2 ELSE 1, FALSE, Dos16, ice)
IcePicture(d) == IF ~d.ok THEN NoPic ELSE AttrPicture(d.rows, d.w, d.h, 2, FALSE, Pal8(d.pal), 1)
TndPicture(d) ==
  IF ~d.ok THEN NoPic
  ELSE [w |-> d.w, h |-> d.h, ice |-> 1, ch |-> [i \in 1..(d.w * d.h) |-> d.rows[((i - 1) \div d.w) + 1][((i - 1) % d.w) + 1][1]] \o <<>>,
        fg |-> [i \in 1..(d.w * d.h) |-> RGB(d.rows[((i - 1) \div d.w) + 1][((i - 1) % d.w) + 1][2])] \o <<>>,
        bg |-> [i \in 1..(d.w * d.h) |-> RGB(d.rows[((i - 1) \div d.w) + 1][((i - 1) % d.w) + 1][3])] \o <<>>]
SpecPicture(fmt, b) ==
  CASE fmt = "xb"  -> XbPicture(DecodeFile(b))
    [] fmt = "bin" -> BinPicture(BinDecode(Content(b), BinWidth(b)), IF HasSauce(b) /\ SauceFlags(b) % 2 = 1 THEN 1 ELSE 0)
    [] fmt = "adf" -> IcePicture(AdfDecode(Content(b)))
    [] fmt = "idf" -> IcePicture(IdfDecode(Content(b)))
    [] OTHER       -> TndPicture(TundraDecode(Content(b), IF HasSauce(b) THEN SauceTInfo1(b) ELSE 80))
\* same picture as far as the model layer is concerned (no alarm, so exact comparison of everything displayed)
SpecAgrees(sp, p, six, blank, solid) ==
  /\ sp.w = p.w /\ sp.h = p.h /\ sp.ice = p.ice /\ Len(p.ch) = p.w * p.h
  /\ sp.ch = p.ch
  /\ (sp.bg = p.bg \/ \A i \in 1..Len(p.ch) : ShowsBg(solid, p.ch[i]) => ColEq(sp.bg[i], p.bg[i], six))
  /\ (sp.fg = p.fg \/ \A i \in 1..Len(p.ch) : ShowsFg(blank, p.ch[i]) => ColEq(sp.fg[i], p.fg[i], six))
ModelLayer(e, sp, blank, solid) ==
  /\ Bump(9)
  /\ Expect(SpecAgrees(sp, e.src, SixBit(e.fmt), blank, solid), "writer-vs-format-document", l, [fmt |-> e.fmt, id |-> e.id, w |-> e.src.w, h |-> e.src.h, sw |-> sp.w, sh |-> sp.h, compress |-> e.compress])
  /\ (IF e.load = "ok" THEN Expect(SpecAgrees(sp, e.back, SixBit(e.fmt), blank, solid), "reader-vs-format-document", l, [fmt |-> e.fmt, id |-> e.id, w |-> e.back.w, h |-> e.back.h, sw |-> sp.w, sh |-> sp.h, compress |-> e.compress]) ELSE TRUE)

Rt(e) ==
  /\ Bump(4)
  /\ (CASE e.fmt = "xb" -> Bump(10) [] e.fmt = "bin" -> Bump(11) [] e.fmt = "tnd" -> Bump(12) [] OTHER -> TRUE)
  /\ (IF InDomain(e) THEN TRUE ELSE Viol("TOOL", "case-outside-domain", l, [fmt |-> e.fmt, id |-> e.id]))
  /\ Check(e.save = "ok" /\ (e.load = "ok" \/ IdfEscClass(e.src, e)), "C05", "Outcome", l, [half |-> "RoundTrip", fmt |-> e.fmt, save |-> e.save, load |-> e.load, w |-> e.src.w, h |-> e.src.h, id |-> e.id, compress |-> e.compress])
  /\ (IF e.save = "ok" /\ e.load # "ok" /\ IdfEscClass(e.src, e) THEN Viol("C05", "PictureEq", l, Basic(e.src, e.back, "idf-compressed-escape-cell", "RoundTrip", e)) ELSE TRUE)
  /\ (IF e.save = "ok" /\ e.load = "ok" THEN Bump(6) /\ PictureEq(e.src, e.back, e, "RoundTrip") ELSE TRUE)
  /\ (IF e.save = "ok" /\ e.ml = 1 THEN ModelLayer(e, SpecPicture(e.fmt, e.bytes), [k \in 1..2 |-> ToSet(e.src.blank[k])], [k \in 1..2 |-> ToSet(e.src.solid[k])]) ELSE TRUE)
Rs(e) ==
  /\ Bump(5)
  \* judged when the first load is a picture at all (positive size) and it could be saved and loaded again
  /\ (IF e.save = "ok" /\ e.l2 = "ok" /\ e.p1.w >= 1 /\ e.p1.h >= 1 THEN Bump(7) /\ PictureEq(e.p1, e.p2, e, "Resave") ELSE Bump(8))

Step(e) == CASE e.ev = "rt" -> Rt(e)
             [] e.ev = "rs" -> Rs(e)
             [] e.ev = "reset" -> TRUE
             [] OTHER -> Viol("TOOL", "unknown-event", l, e.ev)
Next ==
  /\ l <= Len(Rec)
  /\ Bump(3)
  /\ Step(Rec[l])
  /\ l' = l + 1
Spec == Init /\ [][Next]_vars
=============================================================================
