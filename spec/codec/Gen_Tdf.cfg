SPECIFICATION Spec
CONSTANTS TableSize = 94
          NameLen = 12
          WithCases = TRUE
INVARIANT Emit
CHECK_DEADLOCK FALSE
