SPECIFICATION Spec
CONSTANTS RunBase = 2
          Chars = {0, 1}
          Attrs = {2, 3}
          W = 2
          H = 2
          JunkLen = 5
INVARIANT EncoderSound
INVARIANT CrossingRejected
INVARIANT HeadersInRange
INVARIANT RawRoundTrip
CHECK_DEADLOCK FALSE
