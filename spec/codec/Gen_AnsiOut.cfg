SPECIFICATION GenSpec
CONSTANTS MaxW = 0
          EolRule = "design"
INVARIANT Emit0
CHECK_DEADLOCK FALSE
