---------------------------- MODULE Trace_Fonts ----------------------------
(* C17: validates recorded font round trips of the real icy_engine             *)
(* (harness/src/fonts.rs, fn c17) against Fonts.tla and Tdf.tla.               *)
(*                                                                            *)
(* Events                                                                      *)
(*  font{case, carrier, cls, idx, slot, r, site, in, bytes, out}               *)
(*     in / out : [w, h, n, g, ng] font before / after the carrier,            *)
(*     bytes    : the carrier (PSF2 file, raw data, DCS string, XBin/ADF/IDF   *)
(*                file, IcyDraw FONT_<slot> payload)                           *)
(*  tdf{case, cls, mode, r, site, in, bytes, out, re}                          *)
(*     in  : the fonts written ([name, type, sp, glyphs]),                     *)
(*     out : name, type, sp and the defined-glyph pattern of the fonts read    *)
(*           back (public API), re : their re-encoding by the engine,          *)
(*     rin / rout : per font and glyph what the engine's renderer draws for    *)
(*           the font written / read back ([width, rows, crc of the cells]).   *)
(*                                                                            *)
(* Property layer (decides the verdict) - the sentences of properties.jsonl:   *)
(*  FontSurvives : the font read back has the same dimensions, glyph count and *)
(*                 bit-identical glyphs (recorded in / out values);            *)
(*  TdfSurvives  : same number of fonts, same names, types, letter spacing,    *)
(*                 defined glyphs and glyph data.  TheDrawFont keeps its glyph  *)
(*                 table private, so the glyph data of the fonts read back is   *)
(*                 what their re-encoding `re` denotes under Tdf.tla, and what  *)
(*                 the engine's renderer draws for each glyph (rin = rout).     *)
(*                 A writer that REFUSES a font the format cannot hold (glyph   *)
(*                 block above the 16-bit block size) does not violate it.      *)
(* Model layer (drift only): the specification's decoder applied to the         *)
(* recorded carrier bytes yields the font that was written.                     *)
EXTENDS Fonts, Tdf, TraceLib
VARIABLES l
vars == <<l>>
Init == l = 1 /\ InitRegs

FontDiff(a, c) == {f \in {"w", "h", "n", "g"} : a[f] # c[f]}
Denotes(m, f) == m.ok /\ m.w = f.w /\ m.h = f.h /\ m.n = f.n /\ m.g = f.g

\* what the carrier bytes denote according to the specification; "none" = the format does not embed a font here
Model(e) ==
  CASE e.carrier = "psf2" -> [k |-> "font", f |-> Psf2Decode(e.bytes)]
    [] e.carrier \in {"u8", "rawfile"} -> [k |-> "font", f |-> RawDecode(e.bytes)]
    [] e.carrier = "dcs" -> LET d == DcsDecode(e.bytes) IN [k |-> "font", f |-> IF d.ok /\ d.slot # e.slot THEN BadFont("dcs-slot") ELSE d.font]
    [] e.carrier \in {"xbin", "xbin2"} -> LET x == XBinFonts(e.bytes) IN
                                          IF ~x.ok THEN [k |-> "font", f |-> BadFont("xbin")]
                                          ELSE IF Len(x.fonts) <= e.idx THEN [k |-> "none", f |-> BadFont("")]
                                          ELSE [k |-> "font", f |-> x.fonts[e.idx + 1]]
    [] e.carrier = "adf" -> [k |-> "font", f |-> AdfFont(e.bytes)]
    [] e.carrier = "idf" -> [k |-> "font", f |-> IdfFont(e.bytes)]
    [] e.carrier = "icy" -> [k |-> "font", f |-> IcyFontChunk(e.bytes).font]
    [] OTHER -> [k |-> "none", f |-> BadFont("")]

DefPattern(f) == [k \in 1..TableSize |-> IF f.glyphs[k] = <<>> THEN 0 ELSE 1]
DefinedCount(fs) == FoldLeft(LAMBDA acc, f : acc + FoldLeft(LAMBDA a, g : IF g = <<>> THEN a ELSE a + 1, 0, f.glyphs), 0, fs)
\* fields in which the fonts read back differ from the fonts written
TdfFieldDiff(e, re) ==
  IF Len(e.out) # Len(e.in) THEN {"count"}
  ELSE UNION {  {f \in {"name", "type", "sp"} : e.out[i][f] # e.in[i][f]}
                \cup (IF e.out[i].def # DefPattern(e.in[i]) THEN {"defined"} ELSE {})
                \cup (IF Len(e.rout) # Len(e.rin) \/ e.rout[i] # e.rin[i] THEN {"rendering"} ELSE {})
                \cup (IF ~re.ok \/ Len(re.fonts) # Len(e.in) THEN {"reencoding"} ELSE IF re.fonts[i].glyphs # e.in[i].glyphs THEN {"glyphs"} ELSE {})
              : i \in 1..Len(e.in) }

Next ==
  /\ l <= Len(Rec)
  /\ LET e == Rec[l] IN
     /\ Bump(3)
     /\ CASE e.ev = "font" ->
               /\ Bump(4)
               /\ IF e.r = "ok"
                    THEN /\ Bump(6)
                         /\ Check(FontDiff(e.in, e.out) = {}, "C17", "FontSurvives", l,
                                  [case |-> e.case, carrier |-> e.carrier, cls |-> e.cls, r |-> e.r, diff |-> SetToSeq(FontDiff(e.in, e.out)), h |-> e.in.h, n |-> e.in.n, hout |-> e.out.h, nout |-> e.out.n])
                    ELSE Viol("C17", "FontSurvives", l, [case |-> e.case, carrier |-> e.carrier, cls |-> e.cls, r |-> e.r, site |-> e.site, diff |-> <<>>])
               /\ IF e.r \notin {"save-err", "save-panic"} /\ e.carrier # "builtin"
                    THEN LET m == Model(e) IN
                         IF m.k = "none" THEN Bump(9)
                         ELSE Expect(Denotes(m.f, e.in), "carrier-bytes-vs-font-written", l, [case |-> e.case, carrier |-> e.carrier, cls |-> e.cls, why |-> m.f.why])
                    ELSE TRUE
          [] e.ev = "tdf" ->
               /\ Bump(5)
               /\ IF e.r = "ok"
                    THEN LET re == TdfDecode(e.re)
                             diff == TdfFieldDiff(e, re) IN
                         /\ BumpBy(7, Len(e.in)) /\ BumpBy(8, DefinedCount(e.in))
                         /\ Check(diff = {}, "C17", "TdfSurvives", l, [case |-> e.case, cls |-> e.cls, mode |-> e.mode, r |-> e.r, diff |-> SetToSeq(diff)])
                    ELSE IF e.r = "save-err" /\ \E i \in 1..Len(e.in) : ~Representable(e.in[i]) THEN Bump(10)
                    ELSE Viol("C17", "TdfSurvives", l, [case |-> e.case, cls |-> e.cls, mode |-> e.mode, r |-> e.r, site |-> e.site, diff |-> <<>>])
               /\ IF e.r \notin {"save-err", "save-panic"}
                    THEN LET m == TdfDecode(e.bytes) IN
                         Expect(m.ok /\ m.fonts = e.in, "tdf-bytes-vs-fonts-written", l, [case |-> e.case, cls |-> e.cls, why |-> m.why])
                    ELSE TRUE
          [] e.ev \in {"reset", "sum"} -> TRUE     \* sum: digest line for the bookkeeping of the check (counts distinct cases)
          [] OTHER -> Viol("TOOL", "unknown-event", l, e.ev)
  /\ l' = l + 1
Spec == Init /\ [][Next]_vars
=============================================================================
