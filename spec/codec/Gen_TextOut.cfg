SPECIFICATION GenSpec
CONSTANTS MaxW = 0
          AvtGoto = "code"
INVARIANT Emit0
CHECK_DEADLOCK FALSE
