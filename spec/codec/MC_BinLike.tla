------------------------------ MODULE MC_BinLike ------------------------------
(* R1 for C05 on scaled-down layouts: for every picture of at most MaxW x MaxH   *)
(* cells over a 4-cell alphabet and EVERY encoding the format document allows    *)
(* (IDF: any mixture of literal words and repeat triples, the word (1,0) always  *)
(* escaped; Tundra: colour records wherever the writer likes, mandatory where    *)
(* the colour changes or the character is a command byte; BIN/ADF: the memory    *)
(* image), the decoder of BinLike.tla reads the picture back (RoundTrip), and    *)
(* the palette / font tables come back unchanged.  The picture is chosen in      *)
(* Init, the encoder emits it cell by cell (Next).                               *)
EXTENDS BinLike, TLC
CONSTANTS Fmt, MaxW, MaxH
VARIABLES w, h, pic, i, out
vars == <<w, h, pic, i, out>>

\* 4-cell alphabets chosen so that the escapes of each format are exercised
ColA == <<1, 2, 3>>
ColB == <<0, 0, 0>>
Alphabet == IF Fmt = "tnd" THEN {<<2, ColA, ColB>>, <<2, ColB, ColA>>, <<65, ColA, ColB>>, <<65, ColB, ColB>>}
            ELSE {<<1, 0>>, <<1, 7>>, <<65, 0>>, <<65, 7>>}
Widths == IF Fmt = "adf" THEN {AdfWidth} ELSE 1..MaxW
RegColour(r) == <<r, 63 - r, (r * 7) % 64>>                      \* what DAC register r holds in the ADF test files
Pal16 == IF Fmt = "adf" THEN [k \in 1..16 |-> RegColour(AdfReg(k))] ELSE [k \in 1..16 |-> <<k, 63 - k, (k * 7) % 64>>]
Font == [k \in 1..FontLen |-> (k * 37) % 256]

\* ---- file prefix / suffix around the cells
AdfPalBytes == [n \in 1..(3 * AdfPalEntries) |-> RegColour((n - 1) \div 3)[((n - 1) % 3) + 1]]
PalBytes == [n \in 1..48 |-> Pal16[((n - 1) \div 3) + 1][((n - 1) % 3) + 1]]
Prefix == CASE Fmt = "bin" -> <<>>
            [] Fmt = "adf" -> <<1>> \o AdfPalBytes \o Font
            [] Fmt = "idf" -> IdfMagic14 \o <<0, 0, 0, 0, (w - 1) % 256, (w - 1) \div 256, (h - 1) % 256, (h - 1) \div 256>>
            [] OTHER -> TundraMagic
Suffix == IF Fmt = "idf" THEN Font \o PalBytes ELSE <<>>

N == w * h
Cell(k) == pic[k]
Init == /\ w \in Widths /\ h \in 1..MaxH
        /\ pic \in [1..(w * h) -> Alphabet]
        /\ i = 1 /\ out = <<>>
\* colours in force after the first k - 1 cells of a Tundra stream
PrevFg(k) == IF k = 1 THEN Black ELSE pic[k - 1][2]
PrevBg(k) == IF k = 1 THEN Black ELSE pic[k - 1][3]
Emit(bytes, n) == out' = out \o bytes /\ i' = i + n /\ UNCHANGED <<w, h, pic>>
NextBinLike == Emit(<<Cell(i)[1], Cell(i)[2]>>, 1)
NextIdf ==
  \/ Cell(i) # <<1, 0>> /\ Emit(<<Cell(i)[1], Cell(i)[2]>>, 1)                                       \* literal word
  \/ \E n \in 1..(N - i + 1) : (\A k \in 0..(n - 1) : Cell(i + k) = Cell(i))                          \* repeat triple, any length that matches
                                 /\ Emit(<<1, 0, n % 256, n \div 256, Cell(i)[1], Cell(i)[2]>>, n)
NextTnd ==
  LET c == Cell(i)  fgc == c[2] # PrevFg(i)  bgc == c[3] # PrevBg(i) IN
  \/ ~fgc /\ ~bgc /\ c[1] \notin {1, 2, 4, 6} /\ Emit(<<c[1]>>, 1)                                    \* literal
  \/ ~bgc /\ Emit(<<2, c[1], 0>> \o c[2], 1)                                                          \* foreground record (also to escape a command byte)
  \/ ~fgc /\ Emit(<<4, c[1], 0>> \o c[3], 1)
  \/ Emit(<<6, c[1], 0>> \o c[2] \o <<0>> \o c[3], 1)
  \/ i = N /\ c[1] \notin {1, 2, 4, 6} /\ ~fgc /\ ~bgc /\ Emit(<<1, 0, 0, 0, (i - 1) \div w, 0, 0, 0, (i - 1) % w, c[1]>>, 1)   \* redundant position record (last cell only, to keep the state space small)
Next == /\ i <= N
        /\ CASE Fmt = "idf" -> NextIdf [] Fmt = "tnd" -> NextTnd [] OTHER -> NextBinLike
Spec == Init /\ [][Next]_vars

File == Prefix \o out \o Suffix
Dec == CASE Fmt = "bin" -> BinDecode(File, w) [] Fmt = "adf" -> AdfDecode(File) [] Fmt = "idf" -> IdfDecode(File) [] OTHER -> TundraDecode(File, w)
PicRows == [y \in 1..h |-> [x \in 1..w |-> pic[(y - 1) * w + x]]]
RoundTrip == i = N + 1 => LET d == Dec IN d.ok /\ d.w = w /\ d.h = h /\ d.rows = PicRows
TablesBack == (i = N + 1 /\ Fmt \in {"adf", "idf"}) => LET d == Dec IN d.pal = Pal16 /\ d.font = Font
\* a decoder never fails with an evaluation error on a prefix of a valid file (totality on truncated input)
PrefixTotal == i = N + 1 => \A n \in {k \in 0..Len(File) : k < 16 \/ k > Len(File) - 24} : LET p == SubSeq(File, 1, n) IN
                 (CASE Fmt = "bin" -> BinDecode(p, w) [] Fmt = "adf" -> AdfDecode(p) [] Fmt = "idf" -> IdfDecode(p) [] OTHER -> TundraDecode(p, w)).ok \in BOOLEAN
=============================================================================
