-------------------------------- MODULE MC_Crc --------------------------------
(* R1 for C19: on the model, the table-driven formulations equal the bitwise   *)
(* definition.  CRC-16: for every register value s in States16 and all 256     *)
(* bytes.  CRC-32: byte-table step on the generating registers (by linearity   *)
(* of the register update over GF(2) these generate every state), and the      *)
(* slicing-by-16 block step against sixteen single-byte steps.                 *)
EXTENDS Crc, TLC
CONSTANTS Full16          \* TRUE: all 65536 CRC-16 states (thorough)
VARIABLES kind, s
vars == <<kind, s>>
Gen16 == {0, 65535} \cup {2^k : k \in 0..15} \cup {4660, 43981, 291, 65244}
Gen32 == { <<0, 0>>, <<65535, 65535>> } \cup { <<2^k, 0>> : k \in 0..15 } \cup { <<0, 2^k>> : k \in 0..15 } \cup { <<4660, 22136>>, <<57005, 48879>> }
Blocks == { [j \in 1..16 |-> (j * 17 + o) % 256] : o \in {0, 3, 255} } \cup { [j \in 1..16 |-> IF j = p THEN 255 ELSE 0] : p \in 1..16 }
Init == \/ kind = "c16" /\ s \in (IF Full16 THEN 0..65535 ELSE Gen16)
        \/ kind = "c32" /\ s \in Gen32
        \/ kind = "blk" /\ s \in Gen32
Next == kind' = "done" /\ UNCHANGED s
Spec == Init /\ [][Next]_vars
Table16 == kind = "c16" => \A b \in 0..255 : Crc16ByteTable(s, b) = Crc16Byte(s, b)
Table32 == kind = "c32" => \A b \in 0..255 : Crc32ByteTable(s, b) = Crc32Byte(s, b)
Slice16 == kind = "blk" => \A blk \in Blocks : Block16(s, blk) = Crc32From(s, blk, 1)
\* known check values ("123456789"): CRC-16/XMODEM 0x31C3, CRC-32 0xCBF43926
CheckValues == /\ Crc16(<<49,50,51,52,53,54,55,56,57>>) = 12739
               /\ Crc32(<<49,50,51,52,53,54,55,56,57>>) = <<52212, 14630>>
=============================================================================
