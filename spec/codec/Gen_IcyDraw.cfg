SPECIFICATION Spec
CONSTANTS MaxW = 4
          MaxH = 1
          MaxBytes = 0
          WithGeo = TRUE
INVARIANT Emit
CHECK_DEADLOCK FALSE
