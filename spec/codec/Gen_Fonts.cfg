SPECIFICATION Spec
CONSTANTS MaxH = 0
          WithCases = TRUE
INVARIANT Emit
CHECK_DEADLOCK FALSE
