SPECIFICATION Spec
CONSTANTS RecLen = 8
          CmtLen = 2
          SauceId <- SauceIdSmall
          CmtId <- CmtIdSmall
          EofByte = 1
          CountOff = 5
          MaxLen = 10
          MaxContent = 6
INVARIANT Total
INVARIANT RoundTrip
CHECK_DEADLOCK FALSE
