------------------------------ MODULE AnsiOut ------------------------------
(***************************************************************************)
(* C04: ANSI files written by the engine parse back to the same picture.   *)
(*                                                                         *)
(*  (i)   Shown(cell, ice mode, palette): what a cell displays;            *)
(*  (ii)  display equivalence of cells and of pictures;                    *)
(*  (iii) the token grammar of the ANSI writer's output;                   *)
(*  (iv)  a reader model: tokens -> screen (what the ANSI loader makes of  *)
(*        the token stream);                                               *)
(*  (v)   an abstract, non-deterministic writer: every valid encoding of a *)
(*        row (used by MC_AnsiOut for R1).                                 *)
(*                                                                         *)
(* A cell is <<ch, fg, bg, flags>>: character code, palette indices, flags *)
(* bit0 bold, bit1 blink (higher bits: faint, italic, underline, crossed   *)
(* out, double underline, concealed - not part of what C04 compares).      *)
(* A palette is a sequence of <<r, g, b>>; index i is pal[i + 1].          *)
(***************************************************************************)
EXTENDS Naturals, Sequences, FiniteSets
LOCAL INSTANCE SequencesExt          \* FoldLeft (linear; deep RECURSIVE operators are quadratic in TLC)

DefaultCell == <<32, 7, 0, 0>>
Bold(c) == c[4] % 2
Blink(c) == (c[4] \div 2) % 2
Rgb(pal, i) == IF i < Len(pal) THEN pal[i + 1] ELSE <<0, 0, 0>>          \* Palette::get_rgb: out of range = black

Dos16 == << <<0,0,0>>, <<0,0,170>>, <<0,170,0>>, <<0,170,170>>, <<170,0,0>>, <<170,0,170>>, <<170,85,0>>, <<170,170,170>>,
            <<85,85,85>>, <<85,85,255>>, <<85,255,85>>, <<85,255,255>>, <<255,85,85>>, <<255,85,255>>, <<255,255,85>>, <<255,255,255>> >>

(***************************************************************************)
(* (i) What a cell shows.  Bold folds into the bright colour for the low   *)
(* eight indices (Buffer::render_to_rgba).  In ice mode the blink bit is a *)
(* bright background (Caret::get_attribute), nothing blinks.               *)
(***************************************************************************)
Shown(c, ice, pal) ==
  LET fg == IF Bold(c) = 1 /\ c[2] < 8 THEN c[2] + 8 ELSE c[2]
      bg == IF ice = "ice" /\ Blink(c) = 1 /\ c[3] < 8 THEN c[3] + 8 ELSE c[3]
      bl == IF ice = "ice" THEN 0 ELSE Blink(c)
  IN <<c[1], Rgb(pal, fg), Rgb(pal, bg), bl>>

(***************************************************************************)
(* (ii) Display equivalence.  A glyph-blank cell (NUL, space, 0xFF) shows  *)
(* no foreground pixel: its foreground colour and which of the three blank *)
(* characters it holds are not compared (cursor-forward compression and    *)
(* line trimming legitimately do not transmit them).                       *)
(***************************************************************************)
GlyphBlank(ch) == ch \in {0, 32, 255}
ShownEq(a, b) == IF GlyphBlank(a[1]) /\ GlyphBlank(b[1]) THEN a[3] = b[3] /\ a[4] = b[4] ELSE a = b
DefaultShown == <<32, <<170, 170, 170>>, <<0, 0, 0>>, 0>>

\* a cell absent after the end of a row (or below the last row) is a default blank
CellAt(rows, x, y) == IF y <= Len(rows) /\ x <= Len(rows[y]) THEN rows[y][x] ELSE DefaultCell

CellEq(src, sice, spal, back, bice, bpal, x, y) ==
  ShownEq(Shown(CellAt(src, x, y), sice, spal), Shown(CellAt(back, x, y), bice, bpal))

RowEq(src, sice, spal, back, bice, bpal, w, y) ==
  \* cells beyond both recorded rows are default blanks on both sides
  LET n == IF y <= Len(src) /\ y <= Len(back) THEN (IF Len(src[y]) > Len(back[y]) THEN Len(src[y]) ELSE Len(back[y]))
           ELSE IF y <= Len(src) THEN Len(src[y]) ELSE IF y <= Len(back) THEN Len(back[y]) ELSE 0
      m == IF n > w THEN n ELSE n          \* rows never exceed the width; kept total
  IN \A x \in 1..m : CellEq(src, sice, spal, back, bice, bpal, x, y)

PictureEq(src, sice, spal, back, bice, bpal, w) ==
  LET h == IF Len(src) > Len(back) THEN Len(src) ELSE Len(back) IN
  \A y \in 1..h : RowEq(src, sice, spal, back, bice, bpal, w, y)

\* first differing cell in row-major order, <<0, 0>> if none (for the violation report)
RECURSIVE FirstBadRow(_, _, _, _, _, _, _, _, _)
FirstBadRow(src, sice, spal, back, bice, bpal, w, y, h) ==
  IF y > h THEN 0
  ELSE IF RowEq(src, sice, spal, back, bice, bpal, w, y) THEN FirstBadRow(src, sice, spal, back, bice, bpal, w, y + 1, h)
  ELSE y
FirstDiff(src, sice, spal, back, bice, bpal, w) ==
  LET h == IF Len(src) > Len(back) THEN Len(src) ELSE Len(back)
      y == FirstBadRow(src, sice, spal, back, bice, bpal, w, 1, h) IN
  IF y = 0 THEN <<0, 0>>
  ELSE <<CHOOSE x \in 1..(w + 1) : ~CellEq(src, sice, spal, back, bice, bpal, x, y) /\ \A x2 \in 1..(x - 1) : CellEq(src, sice, spal, back, bice, bpal, x2, y), y>>

\* the documented crop: the loader drops trailing empty rows, so the reloaded picture may be lower, never higher,
\* and every source row that is gone must show nothing (checked by PictureEq through CellAt)
SizeOk(w, h, bw, bh) == bw = w /\ bh <= h

(***************************************************************************)
(* (iii) Tokens of the writer's output (the driver tokenises the bytes):    *)
(*   <<0, b1, .., bn>>                    literal bytes (characters, CR, LF) *)
(*   <<1, final, private, inter, p1..>>   CSI private? params inter? final   *)
(*   <<2, b>>                             ESC b   (IcyTerm control characters)*)
(*   <<3, ..>>                            anything else (never valid)        *)
(***************************************************************************)
CtrlChars == {27, 7, 8, 9, 12, 127, 13, 10}          \* StringGenerator::CONTROL_CHARS
Params(t) == SubSeq(t, 5, Len(t))

RECURSIVE SgrOk(_)
SgrOk(p) ==
  IF p = <<>> THEN TRUE
  ELSE IF p[1] \in {0, 1, 2, 3, 4, 5, 8, 9, 21} \cup (30..37) \cup (40..47) THEN SgrOk(Tail(p))
  ELSE IF p[1] \in {38, 48} /\ Len(p) >= 3 /\ p[2] = 5 /\ p[3] \in 0..255 THEN SgrOk(SubSeq(p, 4, Len(p)))
  ELSE FALSE

ValidToken(t) ==
  \/ t[1] = 0 /\ Len(t) >= 2 /\ \A i \in 2..Len(t) : t[i] \in 0..255 /\ t[i] # 27
  \/ t[1] = 2 /\ Len(t) = 2 /\ t[2] \in CtrlChars
  \/ /\ t[1] = 1 /\ Len(t) >= 4
     /\ LET f == t[2]  pr == t[3]  im == t[4]  p == Params(t) IN
        \/ f = 109 /\ pr = 0 /\ im = 0 /\ p # <<>> /\ SgrOk(p)                                  \* SGR
        \/ f = 116 /\ pr = 0 /\ im = 0 /\ Len(p) = 4 /\ p[1] \in {0, 1} /\ \A i \in 2..4 : p[i] \in 0..255   \* CSI 0|1;r;g;b t
        \/ f = 67 /\ pr = 0 /\ im = 0 /\ Len(p) = 1 /\ p[1] >= 1                                 \* CUF
        \/ f = 98 /\ pr = 0 /\ im = 0 /\ Len(p) = 1 /\ p[1] >= 1                                 \* REP
        \/ f = 72 /\ pr = 0 /\ im = 0 /\ Len(p) \in {1, 2} /\ \A i \in 1..Len(p) : p[i] >= 1      \* CUP
        \/ f = 68 /\ pr = 0 /\ im = 32 /\ Len(p) = 2 /\ p[1] = 0                                 \* font selection
        \/ f \in {104, 108} /\ pr = 63 /\ im = 0 /\ p = <<33>>                                   \* CSI ?33h / ?33l
        \/ f = 74 /\ pr = 0 /\ im = 0 /\ p = <<2>>                                               \* CSI 2J
        \/ f \in {115, 117} /\ pr = 0 /\ im = 0 /\ p = <<>>                                      \* CSI s / CSI u

(***************************************************************************)
(* (iv) Reader model: what the ANSI loader makes of a token stream on a     *)
(* buffer of width w.  Colours are kept as RGB values; an RGB value that is *)
(* one of the 16 DOS colours resolves to that palette index (the loader's   *)
(* palette starts with them and Palette::insert_color finds the first       *)
(* match), which matters for bold folding and the ice-mode normalisation.   *)
(* The screen holds shown cells <<ch, fgRGB, bgRGB, blink>>.                *)
(***************************************************************************)
ColorOffsets == <<0, 4, 2, 6, 1, 5, 3, 7>>          \* SGR 30+i -> DOS index
XtermBase == << <<0,0,0>>, <<128,0,0>>, <<0,128,0>>, <<128,128,0>>, <<0,0,128>>, <<128,0,128>>, <<0,128,128>>, <<192,192,192>>,
                <<128,128,128>>, <<255,0,0>>, <<0,255,0>>, <<255,255,0>>, <<0,0,255>>, <<255,0,255>>, <<0,255,255>>, <<255,255,255>> >>
CubeLevel(i) == IF i = 0 THEN 0 ELSE 55 + 40 * i
Xterm(n) == IF n < 16 THEN XtermBase[n + 1]
            ELSE IF n < 232 THEN LET k == n - 16 IN <<CubeLevel(k \div 36), CubeLevel((k \div 6) % 6), CubeLevel(k % 6)>>
            ELSE LET g == 8 + 10 * (n - 232) IN <<g, g, g>>

\* index of an RGB value among the 16 DOS colours (first match), 16 if it is none of them.  Arithmetic form of
\* "position in Dos16": low eight = components in {0,170} (brown <<170,85,0>> replaces <<170,170,0>>), high eight = {85,255}.
DosIndex(rgb) ==
  IF rgb = <<170, 85, 0>> THEN 6
  ELSE IF rgb[1] \in {0, 170} /\ rgb[2] \in {0, 170} /\ rgb[3] \in {0, 170} THEN
         (IF rgb = <<170, 170, 0>> THEN 16 ELSE (IF rgb[1] = 170 THEN 4 ELSE 0) + (IF rgb[2] = 170 THEN 2 ELSE 0) + (IF rgb[3] = 170 THEN 1 ELSE 0))
  ELSE IF rgb[1] \in {85, 255} /\ rgb[2] \in {85, 255} /\ rgb[3] \in {85, 255} THEN
         8 + (IF rgb[1] = 255 THEN 4 ELSE 0) + (IF rgb[2] = 255 THEN 2 ELSE 0) + (IF rgb[3] = 255 THEN 1 ELSE 0)
  ELSE 16
DosIndexSpec(rgb) == IF \E i \in 1..16 : Dos16[i] = rgb THEN (CHOOSE i \in 1..16 : Dos16[i] = rgb /\ \A j \in 1..(i - 1) : Dos16[j] # rgb) - 1 ELSE 16

R0 == [x |-> 0, y |-> 0, fg |-> Dos16[8], bg |-> Dos16[1], bold |-> 0, blink |-> 0, ice |-> FALSE, last |-> 32, rows |-> <<>>, bad |-> 0]

\* what a character printed with the current rendition shows after loading: <<fgRGB, bgRGB, blink>>
PrintAttr(r) ==
  LET fi == DosIndex(r.fg)  bi == DosIndex(r.bg)
      fg == IF r.bold = 1 /\ fi < 8 THEN Dos16[fi + 9] ELSE r.fg                  \* bold folded by parse_with_parser
      bg == IF r.ice /\ r.blink = 1 /\ bi < 8 THEN Dos16[bi + 9] ELSE r.bg        \* Caret::get_attribute
      bl == IF r.ice THEN 0 ELSE r.blink
  IN <<fg, bg, bl>>

PadRow(row, n) == IF Len(row) >= n THEN row ELSE row \o [i \in 1..(n - Len(row)) |-> DefaultShown]
PadRows(rows, n) == IF Len(rows) >= n THEN rows ELSE rows \o [i \in 1..(n - Len(rows)) |-> <<>>]
\* write the cells `cs` into row y starting at column x (0-based), keeping what is left and right of them
PutRun(rows, x, y, cs) ==
  LET rs == PadRows(rows, y + 1)
      old == rs[y + 1]
      new == IF Len(old) <= x THEN PadRow(old, x) \o cs
             ELSE SubSeq(old, 1, x) \o cs \o SubSeq(old, x + Len(cs) + 1, Len(old))
  IN [rs EXCEPT ![y + 1] = new]

\* print the characters chs (no control characters) with the current rendition; auto wrap at column w
RECURSIVE PrintRun(_, _, _)
PrintRun(r, w, chs) ==
  IF chs = <<>> THEN r
  ELSE LET a == PrintAttr(r)
           room == w - r.x
           n == IF Len(chs) < room THEN Len(chs) ELSE room
           cs == [k \in 1..n |-> <<chs[k], a[1], a[2], a[3]>>]
           rows2 == PutRun(r.rows, r.x, r.y, cs) IN
       IF Len(chs) < room THEN [r EXCEPT !.rows = rows2, !.x = r.x + n, !.last = chs[Len(chs)]]
       ELSE PrintRun([r EXCEPT !.rows = rows2, !.x = 0, !.y = r.y + 1, !.last = chs[n]], w, SubSeq(chs, n + 1, Len(chs)))

PrintChar(r, w, ch) == PrintRun(r, w, <<ch>>)
PrintN(r, w, ch, n) == PrintRun(r, w, [k \in 1..n |-> ch])

LoaderCtrl == {13, 10, 12, 7, 127, 27}           \* bytes the loader does not print (CR LF FF BEL DEL ESC)
RECURSIVE RunEnd(_, _)
RunEnd(t, i) == IF i > Len(t) \/ t[i] \in LoaderCtrl THEN i ELSE RunEnd(t, i + 1)       \* first index >= i that is not printable

RECURSIVE Bytes(_, _, _, _)
Bytes(r, w, t, i) ==
  IF i > Len(t) THEN r
  ELSE LET b == t[i] IN
    IF b = 13 THEN Bytes([r EXCEPT !.x = 0], w, t, i + 1)
    ELSE IF b = 10 THEN Bytes([r EXCEPT !.x = 0, !.y = r.y + 1], w, t, i + 1)          \* Caret::lf also returns to column 0
    ELSE IF b \in LoaderCtrl THEN Bytes([r EXCEPT !.bad = 1], w, t, i + 1)             \* FF / BEL / DEL / ESC are not characters for the loader
    ELSE LET j == RunEnd(t, i) IN Bytes(PrintRun(r, w, SubSeq(t, i, j - 1)), w, t, j)

ResetAttr(r) == [r EXCEPT !.fg = Dos16[8], !.bg = Dos16[1], !.bold = 0, !.blink = 0]
RECURSIVE Sgr(_, _)
Sgr(r, p) ==
  IF p = <<>> THEN r
  ELSE LET n == p[1] IN
    IF n = 0 THEN Sgr(ResetAttr(r), Tail(p))
    ELSE IF n = 1 THEN Sgr([r EXCEPT !.bold = 1], Tail(p))
    ELSE IF n = 5 THEN Sgr([r EXCEPT !.blink = 1], Tail(p))
    ELSE IF n \in {2, 3, 4, 8, 9, 21} THEN Sgr(r, Tail(p))                         \* attributes C04 does not compare
    ELSE IF n \in 30..37 THEN Sgr([r EXCEPT !.fg = Dos16[ColorOffsets[n - 29] + 1]], Tail(p))
    ELSE IF n \in 40..47 THEN Sgr([r EXCEPT !.bg = Dos16[ColorOffsets[n - 39] + 1]], Tail(p))
    ELSE IF n \in {38, 48} /\ Len(p) >= 3 /\ p[2] = 5 /\ p[3] \in 0..255 THEN
         Sgr(IF n = 38 THEN [r EXCEPT !.fg = Xterm(p[3])] ELSE [r EXCEPT !.bg = Xterm(p[3])], SubSeq(p, 4, Len(p)))
    ELSE [r EXCEPT !.bad = 1]

Token(r, w, t) ==
  IF t[1] = 0 THEN Bytes(r, w, t, 2)
  ELSE IF t[1] = 2 THEN PrintChar(r, w, t[2])
  ELSE IF t[1] = 1 /\ Len(t) >= 4 THEN
    LET f == t[2]  p == Params(t) IN
    IF f = 109 THEN (IF p = <<>> THEN ResetAttr(r) ELSE Sgr(r, p))
    ELSE IF f = 116 /\ Len(p) = 4 THEN (IF p[1] = 1 THEN [r EXCEPT !.fg = <<p[2], p[3], p[4]>>] ELSE [r EXCEPT !.bg = <<p[2], p[3], p[4]>>])
    ELSE IF f = 67 /\ Len(p) = 1 THEN [r EXCEPT !.x = IF r.x + p[1] > w - 1 THEN w - 1 ELSE r.x + p[1]]     \* CUF stops at the right margin
    ELSE IF f = 98 /\ Len(p) = 1 THEN PrintN(r, w, r.last, p[1])
    ELSE IF f = 72 THEN [r EXCEPT !.y = (IF Len(p) >= 1 /\ p[1] >= 1 THEN p[1] - 1 ELSE 0),
                                  !.x = (IF Len(p) >= 2 /\ p[2] >= 1 THEN (IF p[2] - 1 > w - 1 THEN w - 1 ELSE p[2] - 1) ELSE 0)]
    ELSE IF f = 68 THEN r                                            \* font page: not compared
    ELSE IF f = 104 /\ t[3] = 63 /\ p = <<33>> THEN [r EXCEPT !.ice = TRUE]
    ELSE IF f = 108 /\ t[3] = 63 /\ p = <<33>> THEN [r EXCEPT !.ice = FALSE]
    ELSE IF f = 74 THEN [r EXCEPT !.rows = <<>>, !.x = 0, !.y = 0]    \* only emitted before the first cell
    ELSE [r EXCEPT !.bad = 1]
  ELSE [r EXCEPT !.bad = 1]

ReadFrom(r, w, toks) == FoldLeft(LAMBDA acc, t : Token(acc, w, t), r, toks)
ReadAll(w, toks) == ReadFrom(R0, w, toks)

\* model screen (shown cells) against reloaded cells
ShownAt(rows, x, y) == IF y <= Len(rows) /\ x <= Len(rows[y]) THEN rows[y][x] ELSE DefaultShown
ModelMatches(rows, back, bice, bpal) ==
  LET h == IF Len(rows) > Len(back) THEN Len(rows) ELSE Len(back) IN
  \A y \in 1..h :
    LET n == IF y <= Len(rows) /\ y <= Len(back) THEN (IF Len(rows[y]) > Len(back[y]) THEN Len(rows[y]) ELSE Len(back[y]))
             ELSE IF y <= Len(rows) THEN Len(rows[y]) ELSE Len(back[y]) IN
    \A x \in 1..n : ShownEq(ShownAt(rows, x, y), Shown(CellAt(back, x, y), bice, bpal))

(***************************************************************************)
(* (v) Abstract writer: every valid encoding of one row on a screen of      *)
(* width w.  A rendition is what the reader will hold: <<bold, blink, fg,   *)
(* bg>> with RGB colours.  TargetRendition says which rendition makes the   *)
(* reader show the cell; SgrFor gives token sequences that move the reader  *)
(* from one rendition to another (incrementally when nothing has to be      *)
(* switched off, after a reset otherwise - or always after a reset).        *)
(***************************************************************************)
TargetRendition(c, ice, pal) ==
  LET s == Shown(c, ice, pal)
      fi == DosIndex(s[2])  bi == DosIndex(s[3]) IN
  [bold |-> IF fi \in 8..15 THEN 1 ELSE 0,
   fg |-> IF fi \in 8..15 THEN Dos16[fi - 7] ELSE s[2],
   blink |-> IF ice = "ice" THEN (IF bi \in 8..15 THEN 1 ELSE 0) ELSE s[4],
   bg |-> IF ice = "ice" /\ bi \in 8..15 THEN Dos16[bi - 7] ELSE s[3]]

RenditionOf(r) == [bold |-> r.bold, fg |-> r.fg, blink |-> r.blink, bg |-> r.bg]

SgrIndex(rgb) == CHOOSE k \in 1..8 : Dos16[ColorOffsets[k] + 1] = rgb         \* rgb is one of the low eight DOS colours
ColourTokens(isFg, rgb, cur) ==
  IF rgb = cur THEN <<>>
  ELSE IF DosIndex(rgb) < 8 THEN << <<1, 109, 0, 0, (IF isFg THEN 29 ELSE 39) + SgrIndex(rgb)>> >>
  ELSE << <<1, 116, 0, 0, IF isFg THEN 1 ELSE 0, rgb[1], rgb[2], rgb[3]>> >>

\* tokens turning rendition `from` into `to`; reset = TRUE forces SGR 0 first
SgrFor(from, to, reset) ==
  LET needReset == reset \/ (from.bold = 1 /\ to.bold = 0) \/ (from.blink = 1 /\ to.blink = 0)
      base == IF needReset THEN [bold |-> 0, blink |-> 0, fg |-> Dos16[8], bg |-> Dos16[1]] ELSE from
      attrs == (IF needReset THEN <<0>> ELSE <<>>) \o (IF to.bold = 1 /\ base.bold = 0 THEN <<1>> ELSE <<>>) \o (IF to.blink = 1 /\ base.blink = 0 THEN <<5>> ELSE <<>>)
  IN (IF attrs = <<>> THEN <<>> ELSE << <<1, 109, 0, 0>> \o attrs >>) \o ColourTokens(TRUE, to.fg, base.fg) \o ColourTokens(FALSE, to.bg, base.bg)

\* a cell the writer may skip with a cursor-forward / drop at the end of a row: shows nothing at all
Skippable(c, ice, pal) == LET s == Shown(c, ice, pal) IN GlyphBlank(s[1]) /\ s[3] = <<0, 0, 0>> /\ s[4] = 0
=============================================================================
