------------------------------- MODULE Fonts -------------------------------
(***************************************************************************)
(* Bitmap-font carriers used by icy_engine, written from the format        *)
(* descriptions (psf(5) / kbd's psf.h for PSF1 and PSF2; the raw VGA .Fnn  *)
(* layout; CTerm's "CTerm:Font:<slot>:<base64 raw>" DCS; the font blocks   *)
(* of XBin (x_bin.htm), ArtWorx ADF (ArtworxDataFormat.txt), iCE Draw IDF  *)
(* (idv_103.pas) and IcyDraw (ICEDFormat.md)), not from the Rust loaders.  *)
(*                                                                         *)
(* A font value is a record                                                *)
(*    [w |-> width, h |-> height, n |-> glyph count, g |-> glyph bytes]    *)
(* with g the n*h glyph rows as one flat byte sequence (glyph k occupies   *)
(* g[k*h+1 .. (k+1)*h], one byte per pixel row, MSB = leftmost pixel; all  *)
(* fonts of the engine are at most 8 pixels wide).                         *)
(*                                                                         *)
(* All decoders are TOTAL: on any byte sequence they return a record with  *)
(* ok \in BOOLEAN, never a TLC evaluation error (checked by MC_Fonts).     *)
(* Byte sequences are 1-based TLA+ sequences; offsets `o` are 0-based file *)
(* offsets as in the format documents.                                     *)
(***************************************************************************)
EXTENDS Integers, Sequences, SequencesExt

\* ---------------------------------------------------------------- bytes
LE16(b, o) == b[o + 1] + 256 * b[o + 2]
\* 32-bit little-endian as <<hi16, lo16>> (TLC integers are 32-bit signed)
LE32(b, o) == <<LE16(b, o + 2), LE16(b, o)>>
IsSmall(p) == p[1] < 32768                      \* value fits a TLC integer
Val32(p) == p[1] * 65536 + p[2]
\* signed 32-bit value (offsets of IcyDraw layers)
SVal32(p) == IF p[1] >= 32768 THEN (p[1] - 65536) * 65536 + p[2] ELSE Val32(p)
Slice(b, o, n) == SubSeq(b, o + 1, o + n)       \* n bytes at offset o

BadFont(why) == [ok |-> FALSE, why |-> why, w |-> 0, h |-> 0, n |-> 0, g |-> <<>>]
GoodFont(w, h, n, g) == [ok |-> TRUE, why |-> "", w |-> w, h |-> h, n |-> n, g |-> g]

\* ---------------------------------------------------------------- PSF2
\* header (32 bytes, all little-endian u32): magic 72 b5 4a 86, version (0), headersize, flags (bit 0: unicode table
\* follows the glyphs), length (number of glyphs), charsize (bytes per glyph = height * ceil(width / 8)), height, width
Psf2Magic == <<114, 181, 74, 134>>
HasPsf2Magic(b) == Len(b) >= 4 /\ SubSeq(b, 1, 4) = Psf2Magic
Psf2Decode(b) ==
  IF Len(b) < 32 \/ ~HasPsf2Magic(b) THEN BadFont("psf2-header")
  ELSE LET ver == LE32(b, 4)   hs == LE32(b, 8)   fl == LE32(b, 12)   n == LE32(b, 16)
           cs == LE32(b, 20)   h == LE32(b, 24)   w == LE32(b, 28) IN
       IF ver # <<0, 0>> THEN BadFont("psf2-version")
       ELSE IF hs[1] # 0 \/ n[1] # 0 \/ cs[1] # 0 \/ h[1] # 0 \/ w[1] # 0 \/ n[2] > 4096 \/ cs[2] > 4096 THEN BadFont("psf2-range")
       ELSE IF hs[2] < 32 \/ w[2] = 0 \/ cs[2] # h[2] * ((w[2] + 7) \div 8) THEN BadFont("psf2-geometry")
       ELSE IF hs[2] + n[2] * cs[2] > Len(b) THEN BadFont("psf2-truncated")
       ELSE IF fl[2] % 2 = 0 /\ hs[2] + n[2] * cs[2] # Len(b) THEN BadFont("psf2-trailing-bytes")
       ELSE GoodFont(w[2], h[2], n[2], Slice(b, hs[2], n[2] * cs[2]))

\* writer's choice in icy_engine: headersize 32, flags 0, charsize = height (width <= 8)
Psf2Encode(f) ==
  LET u32(v) == <<v % 256, v \div 256, 0, 0>> IN
  Psf2Magic \o u32(0) \o u32(32) \o u32(0) \o u32(f.n) \o u32(f.h) \o u32(f.h) \o u32(f.w) \o f.g

\* ---------------------------------------------------------------- PSF1
\* header (4 bytes): magic 36 04, mode (bit 0: 512 glyphs, bit 1: has unicode table, bit 2: has sequences), charsize;
\* glyphs are 8 pixels wide, charsize bytes each; a unicode table may follow the glyph data
HasPsf1Magic(b) == Len(b) >= 2 /\ b[1] = 54 /\ b[2] = 4
Psf1DecodeN(b, base) ==        \* base = 256 in real files (scaled down by MC_Fonts)
  IF Len(b) < 4 \/ ~HasPsf1Magic(b) THEN BadFont("psf1-header")
  ELSE LET mode == b[3]   cs == b[4]   n == IF mode % 2 = 1 THEN 2 * base ELSE base   tab == (mode \div 2) % 4 # 0 IN
       IF cs = 0 THEN BadFont("psf1-charsize")
       ELSE IF 4 + n * cs > Len(b) THEN BadFont("psf1-truncated")
       ELSE IF ~tab /\ 4 + n * cs # Len(b) THEN BadFont("psf1-trailing-bytes")
       ELSE GoodFont(8, cs, n, Slice(b, 4, n * cs))
Psf1Decode(b) == Psf1DecodeN(b, 256)
Psf1EncodeN(f, base) == <<54, 4, IF f.n = 2 * base THEN 1 ELSE 0, f.h>> \o f.g

\* ---------------------------------------------------------------- raw (.F08 / .F14 / .F16 / .Fnn, CTerm font DCS payload)
\* 256 glyphs of 8 x h pixels, h = size / 256
RawDecodeN(b, n) ==
  IF Len(b) = 0 \/ Len(b) % n # 0 THEN BadFont("raw-size")
  ELSE GoodFont(8, Len(b) \div n, n, b)
RawDecode(b) == RawDecodeN(b, 256)
RawEncode(f) == f.g

\* a font file as the engine's sniffing loader sees it: PSF1 magic, else PSF2 magic, else raw
FileDecodeN(b, n) == IF HasPsf1Magic(b) THEN Psf1DecodeN(b, n) ELSE IF HasPsf2Magic(b) THEN Psf2Decode(b) ELSE RawDecodeN(b, n)
FileDecode(b) == FileDecodeN(b, 256)
\* the sniffing is ambiguous: raw glyph data may begin with a PSF magic (glyph 0 = 36 04 .. or 72 b5 4a 86 ..)
LooksLikePsf(b) == HasPsf1Magic(b) \/ HasPsf2Magic(b)

\* ---------------------------------------------------------------- base64 (RFC 4648, standard alphabet, '=' padding) and the CTerm font DCS
B64Val(c) == IF c \in 65..90 THEN c - 65 ELSE IF c \in 97..122 THEN c - 71 ELSE IF c \in 48..57 THEN c + 4 ELSE IF c = 43 THEN 62 ELSE IF c = 47 THEN 63 ELSE -1
B64Char(v) == IF v < 26 THEN v + 65 ELSE IF v < 52 THEN v + 71 ELSE IF v < 62 THEN v - 4 ELSE IF v = 62 THEN 43 ELSE 47
Base64Decode(s) ==
  LET n == Len(s)
      pad == IF n >= 1 /\ s[n] = 61 THEN (IF n >= 2 /\ s[n - 1] = 61 THEN 2 ELSE 1) ELSE 0
      v(i) == IF i > n - pad THEN 0 ELSE B64Val(s[i]) IN
  IF n % 4 # 0 \/ \E i \in 1..(n - pad) : B64Val(s[i]) < 0 THEN [ok |-> FALSE, bytes |-> <<>>]
  ELSE [ok |-> TRUE, bytes |-> [k \in 1..(3 * (n \div 4) - pad) |->
          LET q == 4 * ((k - 1) \div 3)   r == (k - 1) % 3 IN
          IF r = 0 THEN v(q + 1) * 4 + v(q + 2) \div 16 ELSE IF r = 1 THEN (v(q + 2) % 16) * 16 + v(q + 3) \div 4 ELSE (v(q + 3) % 4) * 64 + v(q + 4)]]
Base64Encode(b) ==
  LET n == Len(b)   byte(i) == IF i > n THEN 0 ELSE b[i]   groups == (n + 2) \div 3 IN
  [k \in 1..(4 * groups) |->
     LET g == 3 * ((k - 1) \div 4)   r == (k - 1) % 4 IN
     IF r = 0 THEN B64Char(byte(g + 1) \div 4)
     ELSE IF r = 1 THEN B64Char((byte(g + 1) % 4) * 16 + byte(g + 2) \div 16)
     ELSE IF r = 2 THEN (IF g + 2 > n THEN 61 ELSE B64Char((byte(g + 2) % 16) * 4 + byte(g + 3) \div 64))
     ELSE (IF g + 3 > n THEN 61 ELSE B64Char(byte(g + 3) % 64))]

\* ESC P "CTerm:Font:" <slot decimal> ":" <base64 of the raw glyph data> ESC \   (CTerm: the payload is RAW font data, its
\* size determines the height: 4096 = 8x16, 3584 = 8x14, 2048 = 8x8, in general 256 * h)
DcsPrefix == <<27, 80, 67, 84, 101, 114, 109, 58, 70, 111, 110, 116, 58>>
DcsDecodeN(s, n) ==
  LET pl == Len(DcsPrefix)
      colon == FoldLeft(LAMBDA m, i : IF m = 0 /\ i > pl /\ s[i] = 58 THEN i ELSE m, 0, [i \in 1..Len(s) |-> i])     \* first ':' behind the prefix
      slot == FoldLeft(LAMBDA acc, i : IF acc >= 0 /\ s[i] \in 48..57 /\ acc < 100000 THEN acc * 10 + s[i] - 48 ELSE -1, 0, [k \in 1..(colon - pl - 1) |-> pl + k]) IN
  IF Len(s) < pl + 4 \/ SubSeq(s, 1, pl) # DcsPrefix \/ s[Len(s) - 1] # 27 \/ s[Len(s)] # 92 \/ colon = 0 \/ colon = pl + 1 \/ slot < 0
    THEN [ok |-> FALSE, slot |-> 0, font |-> BadFont("dcs-frame")]
  ELSE LET d == Base64Decode(SubSeq(s, colon + 1, Len(s) - 2)) IN
       IF ~d.ok THEN [ok |-> FALSE, slot |-> slot, font |-> BadFont("dcs-base64")]
       ELSE LET f == RawDecodeN(d.bytes, n) IN [ok |-> f.ok, slot |-> slot, font |-> f]
DcsDecode(s) == DcsDecodeN(s, 256)
DcsEncode(slot, f) == DcsPrefix \o slot \o <<58>> \o Base64Encode(f.g) \o <<27, 92>>          \* slot given as its decimal digits

\* a block of n glyphs of height h stored raw at offset o of a picture file
FontBlock(b, o, n, h) == IF o + n * h > Len(b) THEN BadFont("font-block-truncated") ELSE GoodFont(8, h, n, Slice(b, o, n * h))

\* ---------------------------------------------------------------- font blocks inside picture files
\* XBin: "XBIN" 1A, width u16, height u16, fontsize u8 (0 = 16), flags u8 (1 palette, 2 font, 4 compress, 8 non-blink,
\*       16 512-char mode), [palette 48], [font 256*fontsize [x2 when 512-char mode]], image data
XBinFonts(b) ==       \* sequence of the (0, 1 or 2) embedded fonts
  IF Len(b) < 11 \/ SubSeq(b, 1, 4) # <<88, 66, 73, 78>> THEN [ok |-> FALSE, fonts |-> <<>>]
  ELSE LET fh == IF b[10] = 0 THEN 16 ELSE b[10]   fl == b[11]
           hasPal == fl % 2 = 1   hasFont == (fl \div 2) % 2 = 1   ext == (fl \div 16) % 2 = 1
           o == 11 + (IF hasPal THEN 48 ELSE 0)   fl256 == 256 * fh
           cnt == IF ~hasFont THEN 0 ELSE IF ext THEN 2 ELSE 1 IN
       IF fh > 32 \/ o + cnt * fl256 > Len(b) THEN [ok |-> FALSE, fonts |-> <<>>]
       ELSE [ok |-> TRUE, fonts |-> [k \in 1..cnt |-> GoodFont(8, fh, 256, Slice(b, o + (k - 1) * fl256, fl256))]]

\* ADF: version u8 (1), 64 x 3 palette bytes, 4096 font bytes (8x16), screen data
AdfFont(b) == IF Len(b) < 1 + 192 + 4096 \/ b[1] # 1 THEN BadFont("adf-header") ELSE GoodFont(8, 16, 256, Slice(b, 193, 4096))

\* IDF: 04 "1.4" (or "1.3"), x1 y1 x2 y2 u16, cell data ..., 4096 font bytes (8x16), 48 palette bytes - font and palette
\* are located from the END of the file (after a SAUCE record, if any, has been cut off)
IdfFont(b) ==
  IF Len(b) < 12 + 4096 + 48 \/ b[1] # 4 \/ b[2] # 49 \/ b[3] # 46 \/ b[4] \notin {51, 52} THEN BadFont("idf-header")
  ELSE GoodFont(8, 16, 256, Slice(b, Len(b) - 48 - 4096, 4096))

\* IcyDraw FONT_<slot> chunk payload: name length u32, name (UTF-8), PSF font data
IcyFontChunk(b) ==
  IF Len(b) < 4 \/ ~IsSmall(LE32(b, 0)) \/ 4 + Val32(LE32(b, 0)) > Len(b) THEN [ok |-> FALSE, name |-> <<>>, font |-> BadFont("icy-font-name")]
  ELSE LET nl == Val32(LE32(b, 0))   f == FileDecode(SubSeq(b, 4 + nl + 1, Len(b))) IN
       [ok |-> f.ok, name |-> Slice(b, 4, nl), font |-> f]

\* ---------------------------------------------------------------- the property (C17, bitmap half)
\* same dimensions, same glyph count, bit-identical glyphs
SameFont(a, c) == a.w = c.w /\ a.h = c.h /\ a.n = c.n /\ a.g = c.g
=============================================================================
