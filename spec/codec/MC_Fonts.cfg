SPECIFICATION Spec
CONSTANTS MaxH = 3
          WithCases = FALSE
INVARIANT Psf2RoundTrip
INVARIANT Psf1RoundTrip
INVARIANT RawRoundTrip
INVARIANT DcsRoundTrip
INVARIANT BlockRoundTrip
INVARIANT IcyChunkRoundTrip
INVARIANT SniffRoundTrip
INVARIANT SniffAmbiguity
INVARIANT SniffPsf
INVARIANT Truncations
INVARIANT Base64RoundTrip
CHECK_DEADLOCK FALSE
