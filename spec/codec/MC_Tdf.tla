------------------------------- MODULE MC_Tdf -------------------------------
(* R1 for C17 (TheDraw fonts), scaled down to TableSize = 3 glyph slots and    *)
(* NameLen = 2: decode o encode = id for single fonts and bundles, decoder      *)
(* totality under truncation and byte substitution; and (Gen_Tdf.cfg, real      *)
(* constants) the case table for the Rust driver (R2).                          *)
EXTENDS Tdf, TLC, Json
CONSTANTS WithCases
VARIABLE s
vars == <<s>>

\* glyph options per font type; colour glyphs use attribute bytes 00 and 0D, the two values that look like structure
GlyphOpts(type) ==
  IF type = 2 THEN {<<>>, <<1, 1, <<65, 0>>>>, <<1, 2, <<65, 13, 13, 66, 7>>>>, <<2, 1, <<65, 7, 66, 0>>>>}
  ELSE {<<>>, <<1, 1, <<65>>>>, <<2, 2, <<65, 66, 13, 67, 68>>>>, <<1, 2, <<13, 65, 13>>>>}
Names == {<<>>, <<65>>, <<65, 66>>}
Fonts == UNION {[name : Names, type : {t}, sp : {0, 40}, glyphs : [1..TableSize -> GlyphOpts(t)]] : t \in 0..2}
Second == {[name |-> <<90>>, type |-> 2, sp |-> 1, glyphs |-> [k \in 1..TableSize |-> IF k = 2 THEN <<1, 1, <<88, 13>>>> ELSE <<>>]],
           [name |-> <<>>, type |-> 0, sp |-> 0, glyphs |-> [k \in 1..TableSize |-> <<>>]]}

\* the case table exported to the driver (evaluated with the real constants TableSize = 94, NameLen = 12)
Cases == [type : 0..2, def : {"none", "first", "last", "all"}, w : {1, 30}, h : {1, 12}, name : 0..12, bundle : {1, 2, 34}]

Init == \/ ~WithCases /\ \E f \in Fonts : s = [kind |-> "font", f |-> f]
        \/ WithCases /\ \E c \in Cases : s = [kind |-> "case", c |-> c]
Next == UNCHANGED s
Spec == Init /\ [][Next]_vars

IsFont == s.kind = "font"
SingleRoundTrip == IsFont => TdfDecode(TdfEncodeSingle(s.f)) = [ok |-> TRUE, why |-> "", fonts |-> <<s.f>>]
BundleRoundTrip == IsFont => \A g \in Second : /\ TdfDecode(TdfEncodeBundle(<<s.f, g>>)) = [ok |-> TRUE, why |-> "", fonts |-> <<s.f, g>>]
                                               /\ TdfDecode(TdfEncodeBundle(<<g, s.f>>)) = [ok |-> TRUE, why |-> "", fonts |-> <<g, s.f>>]
BlockSizeOk == IsFont => LET b == TdfEncodeSingle(s.f) IN Len(b) = Len(FileHeader) + FontHeaderLen + BlockSize(s.f) /\ Representable(s.f)
\* totality: every truncation and every single-byte substitution decodes to a Boolean verdict without an evaluation error;
\* truncations that cut into a font are rejected
Total ==
  IsFont => LET b == TdfEncodeBundle(<<s.f, CHOOSE g \in Second : g.type = 2>>) IN
            /\ \A k \in 0..(Len(FileHeader) + FontHeaderLen + BlockSize(s.f) - 1) : ~TdfDecode(SubSeq(b, 1, k)).ok
            /\ \A k \in 1..Len(b) : TdfDecode(SubSeq(b, 1, k)).ok \in BOOLEAN
            /\ \A i \in 1..Len(b), v \in {0, 13, 255} : TdfDecode([b EXCEPT ![i] = v]).ok \in BOOLEAN
Emit == s.kind = "case" => PrintT(<<"WITNESS", ToJson(s.c)>>)
=============================================================================
