----------------------------- MODULE Trace_Attr -----------------------------
(* C18: every (byte, mode), every (fg,bg,blink,bold,mode), every code of every *)
(* code-page converter, recorded from the real engine, judged by the           *)
(* identities of the property; Attr.tla / Cp437.tla are the model layer.       *)
EXTENDS Attr, Cp437, TraceLib
VARIABLES l
vars == <<l>>
Init == l = 1 /\ InitRegs
Alnum(c) == c = 32 \/ (c >= 48 /\ c <= 57) \/ (c >= 65 /\ c <= 90) \/ (c >= 97 /\ c <= 122)
Next ==
  /\ l <= Len(Rec)
  /\ LET e == Rec[l] IN
     /\ Bump(3)
     /\ CASE e.ev = "dec" ->
               /\ Bump(4)
               /\ Check(e.re = e.b, "C18", "DecodeEncode", l, [b |-> e.b, m |-> e.m, re |-> e.re])
               /\ Expect(LET d == Decode(e.b, e.m) IN d.fg = e.fg /\ d.bg = e.bg /\ d.bl = e.bl /\ e.bo = 0, "decode", l, [b |-> e.b, m |-> e.m])
          [] e.ev = "enc" ->
               /\ Bump(5)
               /\ Check(Expressible(e.fg, e.bg, e.bl, e.bo, e.m) => (e.fg2 = ShownFg(e.fg, e.bo) /\ e.bg2 = e.bg /\ e.bl2 = e.bl),
                        "C18", "EncodeDecode", l, [m |-> e.m, fg |-> e.fg, bg |-> e.bg, bl |-> e.bl, bo |-> e.bo, byte |-> e.byte])
               /\ Expect(e.byte = Encode(e.fg, e.bg, e.bl, e.bo, e.m), "encode", l, [m |-> e.m, fg |-> e.fg, bg |-> e.bg, bl |-> e.bl, bo |-> e.bo, byte |-> e.byte])
          [] e.ev = "cp" ->
               /\ Bump(6)
               \* CP437: all 256 codes; ATASCII: its 128 base codes
               /\ Check((e.conv = "cp437" \/ (e.conv = "atascii" /\ e.code < 128)) => e.back = e.code, "C18", "CodePageRoundTrip", l, [conv |-> e.conv, page |-> e.page, fg |-> e.fg, bg |-> e.bg, code |-> e.code, uni |-> e.uni, back |-> e.back])
               /\ Expect(e.conv = "cp437" /\ e.code # 0 => e.uni = Cp437ToUnicode[e.code + 1], "cp437-table", l, [code |-> e.code, uni |-> e.uni])
          [] e.ev = "typed" ->
               /\ Bump(7)
               \* "converts to the emulation's code": CP437, ATASCII, Viewdata and Mode 7 keep the ASCII code of letters, digits and space
               /\ Check((Alnum(e.ch) /\ e.conv \in {"cp437", "atascii", "viewdata", "mode7"}) => e.code = e.ch, "C18", "TypedCode", l,
                        [conv |-> e.conv, page |-> e.page, ch |-> e.ch, code |-> e.code])
               /\ Check(Alnum(e.ch) => e.back = e.ch, "C18", "TypedRoundTrip", l, [conv |-> e.conv, page |-> e.page, fg |-> e.fg, bg |-> e.bg, ch |-> e.ch, code |-> e.code, back |-> e.back])
          [] OTHER -> Viol("TOOL", "unknown-event", l, e.ev)
  /\ l' = l + 1
Spec == Init /\ [][Next]_vars
=============================================================================
