------------------------------ MODULE MC_Fonts ------------------------------
(* R1 for C17 (bitmap fonts), scaled down: BASE = 2 glyphs (4 in "512" mode), *)
(* heights 1..3, glyph bytes over an alphabet that contains the bytes of both  *)
(* PSF magics; and (Gen_Fonts.cfg) the case table heights x glyph counts x     *)
(* carriers for the Rust driver (R2).                                          *)
EXTENDS Fonts, TLC, Json
CONSTANTS MaxH, WithCases
VARIABLE s
vars == <<s>>
BASE == 2
Alphabet == {0, 4, 54, 255}        \* 36 04 = PSF1 magic
Alphabet2 == {114, 181, 74, 134}   \* 72 b5 4a 86 = PSF2 magic

\* the carriers of the engine and what each of them supports
Carriers == {"psf2", "u8", "rawfile", "dcs", "xbin", "xbin2", "adf", "idf", "icy"}
Supports(c, h, n) ==
  CASE c \in {"psf2", "icy"} -> TRUE
    [] c \in {"adf", "idf"} -> h = 16 /\ n = 256
    [] OTHER -> n = 256
Cases == {cs \in [c : Carriers, h : 1..32, n : {256, 512}] : Supports(cs.c, cs.h, cs.n)}

Init == \/ \E h \in 1..MaxH, dbl \in BOOLEAN : (dbl => h <= 2) /\ s = [kind |-> "font", h |-> h, n |-> IF dbl THEN 2 * BASE ELSE BASE, g |-> <<>>]
        \/ \E g \in [1..4 -> Alphabet2] : s = [kind |-> "font", h |-> 2, n |-> BASE, g |-> g]
        \/ s = [kind |-> "b64", g |-> <<>>]
        \/ WithCases /\ \E cs \in Cases : s = [kind |-> "case", cs |-> cs]
Next == \/ s.kind = "font" /\ Len(s.g) < s.h * s.n /\ \E b \in Alphabet : s' = [s EXCEPT !.g = Append(@, b)]
        \/ s.kind = "b64" /\ Len(s.g) < 4 /\ \E b \in {0, 1, 63, 64, 128, 255} : s' = [s EXCEPT !.g = Append(@, b)]
Spec == Init /\ [][Next]_vars

Complete == s.kind = "font" /\ Len(s.g) = s.h * s.n
F == [ok |-> TRUE, why |-> "", w |-> 8, h |-> s.h, n |-> s.n, g |-> s.g]
\* decode o encode = id for every carrier layout
Psf2RoundTrip == Complete => Psf2Decode(Psf2Encode(F)) = F
Psf1RoundTrip == Complete => Psf1DecodeN(Psf1EncodeN(F, BASE), BASE) = F
RawRoundTrip == (Complete /\ s.n = BASE) => RawDecodeN(RawEncode(F), BASE) = F
DcsRoundTrip == (Complete /\ s.n = BASE) => LET d == DcsDecodeN(DcsEncode(<<51, 48, 48>>, F), BASE) IN d.ok /\ d.slot = 300 /\ d.font = F
BlockRoundTrip == Complete => \A pre \in {<<>>, <<1, 2, 3>>} : FontBlock(pre \o F.g \o <<9>>, Len(pre), s.n, s.h) = F
IcyChunkRoundTrip == Complete => LET c == IcyFontChunk(<<2, 0, 0, 0, 195, 164>> \o Psf2Encode(F)) IN c.ok /\ c.name = <<195, 164>> /\ c.font = F
\* the sniffing loader reads raw data back exactly when it does not begin with a PSF magic - and ONLY then
SniffRoundTrip == (Complete /\ s.n = BASE /\ ~LooksLikePsf(s.g)) => FileDecodeN(RawEncode(F), BASE) = F
SniffAmbiguity == (Complete /\ s.n = BASE /\ LooksLikePsf(s.g)) => FileDecodeN(RawEncode(F), BASE) # F
SniffPsf == Complete => FileDecodeN(Psf2Encode(F), BASE) = F /\ FileDecodeN(Psf1EncodeN(F, BASE), BASE) = F
\* totality: every truncation of every carrier decodes to ok \in BOOLEAN (no evaluation error), and is rejected
Truncations ==
  Complete => /\ \A k \in 0..(Len(Psf2Encode(F)) - 1) : ~Psf2Decode(SubSeq(Psf2Encode(F), 1, k)).ok
              /\ \A k \in 0..(Len(Psf1EncodeN(F, BASE)) - 1) : ~Psf1DecodeN(SubSeq(Psf1EncodeN(F, BASE), 1, k), BASE).ok
              /\ \A k \in 0..Len(s.g) : RawDecodeN(SubSeq(s.g, 1, k), BASE).ok \in BOOLEAN /\ FileDecodeN(SubSeq(s.g, 1, k), BASE).ok \in BOOLEAN
              /\ LET d == DcsEncode(<<55>>, F) IN \A k \in 0..(Len(d) - 1) : ~DcsDecodeN(SubSeq(d, 1, k), BASE).ok
              /\ \A k \in 0..5 : IcyFontChunk(SubSeq(<<2, 0, 0, 0, 195, 164>>, 1, k)).ok \in BOOLEAN
Base64RoundTrip == s.kind = "b64" => LET d == Base64Decode(Base64Encode(s.g)) IN d.ok /\ d.bytes = s.g /\ Len(Base64Encode(s.g)) = 4 * ((Len(s.g) + 2) \div 3)
ASSUME /\ Base64Encode(<<77, 97, 110>>) = <<84, 87, 70, 117>>                      \* "Man" -> "TWFu"
       /\ Base64Encode(<<77, 97>>) = <<84, 87, 69, 61>>                            \* "Ma"  -> "TWE="
       /\ Base64Decode(<<84, 87, 69, 61>>) = [ok |-> TRUE, bytes |-> <<77, 97>>]
       /\ ~Base64Decode(<<84, 87, 69>>).ok /\ ~Base64Decode(<<84, 87, 32, 61>>).ok
       /\ ~XBinFonts(<<88, 66, 73, 78, 26, 1, 0, 1, 0, 2, 2>>).ok                  \* font flag set, font data missing
       /\ XBinFonts(<<88, 66, 73, 78, 26, 1, 0, 1, 0, 1, 2>> \o [i \in 1..256 |-> i % 7]).fonts[1].h = 1
       /\ ~AdfFont(<<1>>).ok /\ ~IdfFont(<<4, 49, 46, 52>>).ok

Emit == s.kind = "case" => PrintT(<<"WITNESS", ToJson(s.cs)>>)
=============================================================================
