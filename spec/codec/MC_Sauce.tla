------------------------------ MODULE MC_Sauce ------------------------------
(* R1 for C11: exhaustive check of the SAUCE split on a scaled-down layout,   *)
(* and (Gen_Sauce.cfg) the generator of driver cases (R2).                     *)
(*                                                                             *)
(* Scaled-down layout: RecLen = 8, CmtLen = 2, one-byte ids.  Bytes:           *)
(*   0 = x (anything), 1 = EOF, 2 = C (comment id), 3 = S (sauce id)           *)
(* and the same four values double as the comment count found in a record,     *)
(* so "count larger than the file" and "marker-looking content" all occur.     *)
EXTENDS Sauce, TLC, Json
CONSTANTS MaxLen,        \* Split is checked on every string up to this length
          MaxContent     \* the round trip is checked for every content up to this length

SauceIdSmall == <<3>>
CmtIdSmall == <<2>>
Alpha == 0..3

VARIABLES f, c          \* f: the string under test (R1); c: the generated case (R2 generator only)
vars == <<f, c>>
Init == f = <<>> /\ c = 0
Next == Len(f) < MaxLen /\ (\E b \in Alpha : f' = Append(f, b)) /\ UNCHANGED c
Spec == Init /\ [][Next]_vars

\* every string is split sanely (total: no evaluation error, content is a prefix, lengths add up)
Total == SplitSane(f)

\* records and comment lists the writer may attach to a content: payload bytes of the record and comment
\* bytes range over marker-looking values too
Payloads == { <<0, 0, 0, 0>>, <<3, 3, 2, 1>>, <<1, 1, 1, 1>>, <<2, 0, 3, 0>> }
Rec(n, p) == SauceIdSmall \o Take(p, CountOff - 1) \o <<n>> \o Drop(p, CountOff - 1) \o [i \in 1..(RecLen - Len(p) - 2) |-> p[1]]
CmtLines == { <<0, 0>>, <<2, 3>>, <<1, 1>>, <<3, 2>>, <<0, 1>> }
CommentLists == { <<>> } \cup { <<a>> : a \in CmtLines } \cup { <<a, b>> : a \in CmtLines, b \in CmtLines }

\* C11 on the design: for this content, every comment list (0..2 lines) and every record, the split is exact
RoundTrip ==
  Len(f) <= MaxContent =>
    \A cm \in CommentLists, p \in Payloads :
      LET rec == Rec(Len(cm), p) IN WellFormedRec(rec, cm) /\ SplitExact(f, cm, rec)

\* field law for all texts up to length 4 over {a, blank, NUL} in fields of width 0..4, both pad conventions
Texts(n) == UNION { [1..k -> {65, Blank, Nul}] : k \in 0..n }
ASSUME \A t \in Texts(4), w \in 0..4, pad \in {Blank, Nul} : FieldLaw(t, w, pad)
\* Strip is idempotent and never longer
ASSUME \A t \in Texts(4) : Strip(Strip(t)) = Strip(t) /\ Len(Strip(t)) <= Len(t)
\* the per-variant table is total
ASSUME \A w \in {"ans", "asc", "avt", "pcb", "bin", "xb", "tnd", "adf", "idf", "icy"} : VariantOf(w) \in Variants /\ Common \subseteq Carried(VariantOf(w))

(***************************************************************************)
(* Generator (Gen_Sauce.cfg): driver cases = three slices of the C11        *)
(* quantifier.  Every case is one initial state of GenSpec; Emit prints it. *)
(*   A  string-field lengths 0/1/max-1/max x kind of trailing bytes          *)
(*   B  comment counts {0,1,2,254,255} x line lengths 0/1/63/64 x trailing   *)
(*   C  flag combinations x widths x marker-looking content tails            *)
(* each x the ten writers.                                                   *)
(***************************************************************************)
Writers == {"ans", "asc", "avt", "pcb", "bin", "xb", "tnd", "adf", "idf", "icy"}
LenClass == 0..3                    \* 0, 1, max-1, max
Trailing == {"none", "blank", "nul"}
Counts == {0, 1, 2, 254, 255}
Widths == {1, 79, 80, 81, 160, 255, 256, 1000}     \* 160 = the BIN loader's default
Tails == {"plain", "sauce", "comnt", "eof"}

Case(sl, w, tl, al, gl, fl, tr, n, cl, ice, ls, ar, wd, tail) ==
  [slice |-> sl, writer |-> w, tlen |-> tl, alen |-> al, glen |-> gl, flen |-> fl, trailing |-> tr, ncomments |-> n, clen |-> cl,
   ice |-> ice, ls |-> ls, ar |-> ar, width |-> wd, tail |-> tail]

SliceA == { Case("A", w, tl, al, gl, fl, tr, 0, 0, 0, 0, 0, 80, "plain") :
              w \in Writers, tl \in LenClass, al \in LenClass, gl \in LenClass, fl \in LenClass, tr \in Trailing }
\* flen = 4 stands for "the default font of a fresh buffer"; the large comment counts only with one kind of trailing bytes
SliceB == { Case("B", w, 1, 1, 1, 4, tr, n, cl, 0, 0, 0, 80, "plain") :
              w \in Writers, tr \in Trailing, n \in {k \in Counts : k < 200}, cl \in LenClass } \cup
          { Case("B", w, 1, 1, 1, 4, "none", n, cl, 0, 0, 0, 80, "plain") :
              w \in Writers, n \in {k \in Counts : k >= 200}, cl \in LenClass }
SliceC == { Case("C", w, 2, 2, 2, 4, "none", n, 3, ice, ls, ar, wd, tail) :
              w \in Writers, n \in {0, 1}, ice \in 0..1, ls \in 0..1, ar \in 0..1, wd \in Widths, tail \in Tails }

GenInit == f = <<>> /\ c \in SliceA \cup SliceB \cup SliceC
GenNext == UNCHANGED vars
GenSpec == GenInit /\ [][GenNext]_vars
Emit == PrintT(<<"WITNESS", ToJson(c)>>)
=============================================================================
