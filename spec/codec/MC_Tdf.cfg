SPECIFICATION Spec
CONSTANTS TableSize = 3
          NameLen = 2
          WithCases = FALSE
INVARIANT SingleRoundTrip
INVARIANT BundleRoundTrip
INVARIANT BlockSizeOk
INVARIANT Total
CHECK_DEADLOCK FALSE
