SPECIFICATION Spec
CONSTANTS UNK = UNK
          Docs = {1, 2}
          MaxEdits = 4
          MaxDepth = 2
          MaxBegins = 2
          MaxSteps = 8
          GenMode = FALSE
INVARIANT Inv
VIEW ViewMC
CHECK_DEADLOCK FALSE
