SPECIFICATION Spec
POSTCONDITION Post
CHECK_DEADLOCK FALSE
