------------------------------- MODULE Links --------------------------------
(***************************************************************************)
(* Hyperlink ranges of a buffer (src/url_scanner.rs): a link is a start      *)
(* position and a length in reading order, wrapping at the buffer's width.   *)
(*   Walk            the cells get_string / underline visit                  *)
(*   InRangeCode     Buffer::is_position_in_range, transcribed branch by     *)
(*                   branch (Rust integer division truncates towards zero)   *)
(* Named behaviour of the code:                                             *)
(*   WrappedRangeMiss  for a link that wraps to the next row the predicate   *)
(*                   computes the remainder as size - (width + from.x)       *)
(*                   instead of size - (width - from.x): cells of the        *)
(*                   continuation rows are reported as outside the link      *)
(*                   (MC_Links pins both: agreement on one-row links, and    *)
(*                   the smallest disagreeing case)                          *)
(***************************************************************************)
EXTENDS Integers, Sequences

\* Rust's / and % on i32 (truncation towards zero)
TDiv(a, b) == IF a >= 0 THEN a \div b ELSE -((-a) \div b)

\* the i-th cell (0-based) of a link that starts at from = <<x, y>> with 0 <= x < w
Nth(from, i, w) == <<(from[1] + i) % w, from[2] + ((from[1] + i) \div w)>>
Walk(from, size, w) == [i \in 1..size |-> Nth(from, i - 1, w)]
Covered(from, size, w) == {Nth(from, i, w) : i \in 0..(size - 1)}

InRangeCode(pos, from, size, w) ==
  IF pos[2] < from[2] THEN FALSE
  ELSE IF pos[2] = from[2] THEN from[1] <= pos[1] /\ pos[1] < from[1] + size
  ELSE LET remainder == size - (w + from[1])
           lines == TDiv(remainder, w)
           y == from[2] + lines + (IF remainder > 0 THEN 1 ELSE 0)
           x == IF remainder > 0 THEN remainder - lines * w ELSE remainder
       IN pos[2] < y \/ (pos[2] = y /\ pos[1] < x)

\* the predicate with the remainder computed as the comment in the Rust intends (proposed_fixes/LINKS-1.patch): MC_Links checks
\* that THIS one agrees with the walk for every link, wrapped or not
InRangeFixed(pos, from, size, w) ==
  IF pos[2] < from[2] THEN FALSE
  ELSE IF pos[2] = from[2] THEN from[1] <= pos[1] /\ pos[1] < from[1] + size
  ELSE LET remainder == size - (w - from[1])
           lines == IF remainder > 0 THEN remainder \div w ELSE 0
           y == from[2] + 1 + lines
           x == IF remainder > 0 THEN remainder - lines * w ELSE 0
       IN remainder > 0 /\ (pos[2] < y \/ (pos[2] = y /\ pos[1] < x))
=============================================================================
