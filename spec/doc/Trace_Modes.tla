----------------------------- MODULE Trace_Modes ----------------------------
(***************************************************************************)
(* Validates recorded calls of set_ice_mode / replace_font_usage /           *)
(* change_font_slot / remove_font (+ undo, redo) on the real EditState       *)
(* against Modes.tla (harness/src/modes.rs).  Model layer only.              *)
(* Registers: 4 cases, 5 calls, 6 documents compared, 7 cells compared,      *)
(* 8 undo / redo steps compared, 9 engine panics, 10 calls returning Err.    *)
(***************************************************************************)
EXTENDS Modes, TraceLib
VARIABLES l, td, us, rs, base
vars == <<l, td, us, rs, base>>

CellOf(a) == C(a[1], a[2], a[3], a[4] = 1, a[5])
DocOf(s) == [ice |-> s.ice, cells |-> [i \in 1..Len(s.cells) |-> CellOf(s.cells[i])],
             caret |-> [fg |-> s.caret[1], bg |-> s.caret[2], blink |-> s.caret[3] = 1, page |-> s.caret[4]],
             defpages |-> s.defpages, slots |-> {s.slots[i] : i \in 1..Len(s.slots)}]
Init == l = 1 /\ td = [ice |-> "unlimited", cells |-> <<>>, caret |-> [fg |-> 7, bg |-> 0, blink |-> FALSE, page |-> 0], defpages |-> <<>>, slots |-> {}]
          /\ us = <<>> /\ rs = <<>> /\ base = 0 /\ InitRegs

\* the model's answer: [d, us, rs]; every modelled call records exactly one undo step (atomic groups count as one)
Push(o, d2) == [d |-> d2, us |-> Append(us, [op |-> o.op, b |-> td, a |-> d2]), rs |-> <<>>]
\* CaretNotUndone: the step of set_ice_mode saves the layers and the mode, not the caret's attribute
Back(e, snap) == IF e.op = "set_ice_mode" THEN [snap EXCEPT !.caret = td.caret] ELSE snap
Model(e) ==
  LET o == e.o IN
  CASE o.op = "set_ice_mode" -> Push(o, SetIceMode(td, o.a[1]))
    [] o.op = "replace_font_usage" -> Push(o, ReplaceFontUsage(td, o.a[1], o.a[2]))
    [] o.op = "change_font_slot" -> Push(o, ChangeFontSlot(td, o.a[1], o.a[2]))
    [] o.op = "remove_font" -> Push(o, RemoveFont(td, o.a[1]))
    [] o.op = "undo" -> IF us = <<>> THEN [d |-> td, us |-> us, rs |-> rs] ELSE [d |-> Back(us[Len(us)], us[Len(us)].b), us |-> SubSeq(us, 1, Len(us) - 1), rs |-> Append(rs, us[Len(us)])]
    [] o.op = "redo" -> IF rs = <<>> THEN [d |-> td, us |-> us, rs |-> rs] ELSE [d |-> Back(rs[Len(rs)], rs[Len(rs)].a), us |-> Append(us, rs[Len(rs)]), rs |-> SubSeq(rs, 1, Len(rs) - 1)]

Diff(a, b) ==
  IF a.ice # b.ice THEN [what |-> "ice", model |-> a.ice, engine |-> b.ice]
  ELSE IF a.caret # b.caret THEN [what |-> "caret", model |-> a.caret, engine |-> b.caret]
  ELSE IF a.defpages # b.defpages THEN [what |-> "default-pages", model |-> a.defpages, engine |-> b.defpages]
  ELSE IF a.slots # b.slots THEN [what |-> "slots", model |-> a.slots, engine |-> b.slots]
  ELSE IF Len(a.cells) # Len(b.cells) THEN [what |-> "cell-count", model |-> Len(a.cells), engine |-> Len(b.cells)]
  ELSE LET i == CHOOSE i \in 1..Len(a.cells) : a.cells[i] # b.cells[i] IN [what |-> "cell", i |-> i, model |-> a.cells[i], engine |-> b.cells[i]]

Next ==
  /\ l <= Len(Rec)
  /\ LET e == Rec[l] IN
     /\ Bump(3)
     /\ CASE e.ev = "reset" -> Bump(4) /\ td' = DocOf(e.st) /\ us' = <<>> /\ rs' = <<>> /\ base' = e.st.ul
          [] e.ev = "op" ->
               LET m == Model(e)  eng == DocOf(e.st)
                   \* an atomic group that recorded nothing is not a step; remove_font of an empty slot fails after re-labelling
                   agreed == e.r = "ok" /\ m.d = eng /\ e.st.ul = base + Len(m.us) IN
               /\ Bump(5)
               /\ (IF e.r = "panic" THEN Bump(9) ELSE TRUE)
               /\ (IF e.r = "err" THEN Bump(10) ELSE TRUE)
               /\ (IF e.o.op \in {"undo", "redo"} THEN Bump(8) ELSE TRUE)
               /\ Expect(e.r = "ok" \/ (e.o.op = "remove_font" /\ ~RemoveFontOk(td, e.o.a[1]) /\ e.r = "err"), "result:" \o e.o.op, l, [a |-> e.o.a, engine |-> e.r, site |-> e.site])
               /\ (IF e.r = "ok"
                   THEN /\ Bump(6) /\ BumpBy(7, Len(eng.cells))
                        /\ Expect(m.d = eng, "document:" \o e.o.op, l, [a |-> e.o.a, diff |-> Diff(m.d, eng)])
                        /\ Expect(e.st.ul = base + Len(m.us), "undo-len:" \o e.o.op, l, [a |-> e.o.a, model |-> base + Len(m.us), engine |-> e.st.ul])
                   ELSE TRUE)
               /\ td' = eng
               /\ us' = IF e.st.ul = base + Len(m.us) THEN m.us ELSE <<>>
               /\ rs' = IF e.st.ul = base + Len(m.us) THEN m.rs ELSE <<>>
               /\ base' = IF e.st.ul = base + Len(m.us) THEN base ELSE e.st.ul
          [] OTHER -> Viol("TOOL", "unknown-event", l, e.ev) /\ UNCHANGED <<td, us, rs, base>>
  /\ l' = l + 1
Spec == Init /\ [][Next]_vars
=============================================================================
