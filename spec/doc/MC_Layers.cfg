SPECIFICATION SpecMC
CONSTANTS MaxLayers = 2
          Uni = "view"
          Border = 0
          Ops = {"remove", "edit", "below", "insert", "translate", "move"}
          Few = FALSE
          HB <- SmallHB
INVARIANT AllLaws
INVARIANT ShownIsWalk
CHECK_DEADLOCK FALSE
