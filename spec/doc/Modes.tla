------------------------------- MODULE Modes --------------------------------
(***************************************************************************)
(* The editor's document-wide conversions (src/editor/font_operations.rs):   *)
(* set_ice_mode (blink <-> ice colours), replace_font_usage, change_font_slot *)
(* and remove_font, transcribed branch by branch.                            *)
(* A cell is [ch, fg, bg, blink, page]; the document is a sequence of cells  *)
(* (the conversions are cell-wise, the layer structure does not matter) plus *)
(* the caret's attribute [fg, bg, blink, page], the layers' default font     *)
(* pages and the set of occupied font slots.                                 *)
(* Named behaviours of the code:                                            *)
(*   IceToBlinkRewrites  a cell with a bright background becomes, in this    *)
(*        order: same fg and bg -> full block on black; a blank (0, 32, 255) *)
(*        -> full block in the background colour; a full block -> black      *)
(*        background; with a dark foreground a shade / half block becomes    *)
(*        its inverse glyph with swapped colours (176<->178, 177, 220<->223, *)
(*        221<->222); everything else keeps its glyph, blinks, bg - 8        *)
(*   BlinkToIceSaturates a blinking cell stops blinking and gets bg + 8 only *)
(*        if bg < 8 (an extended background stays)                           *)
(*   CaretFollows       the caret's own attribute is converted too (but by   *)
(*        plain arithmetic, not by the cell rules)                           *)
(*   CaretNotUndone     undoing / redoing set_ice_mode restores the layers   *)
(*        and the mode, not the caret's attribute (Trace_Modes.Back)         *)
(*   ExtendedBgUntouched backgrounds >= 16 are not ice colours: untouched    *)
(*   SlotMoveIgnoresMissingFont change_font_slot re-labels the cells even    *)
(*        when the source slot holds no font (the slot table is unchanged)   *)
(*   RemoveFontZero     remove_font(0) re-labels nothing (0 -> 0) and leaves *)
(*        the document without a font in slot 0                              *)
(***************************************************************************)
EXTENDS Integers, Sequences, FiniteSets

C(ch, fg, bg, bl, pg) == [ch |-> ch, fg |-> fg, bg |-> bg, blink |-> bl, page |-> pg]
Swap(c, ch) == [c EXCEPT !.ch = ch, !.fg = c.bg, !.bg = c.fg]

RemoveIceColor(c) ==
  IF c.fg = c.bg THEN [c EXCEPT !.ch = 219, !.bg = 0]
  ELSE IF c.ch \in {0, 32, 255} THEN [c EXCEPT !.ch = 219, !.fg = c.bg, !.bg = 0]
  ELSE IF c.ch = 219 THEN [c EXCEPT !.bg = 0]
  ELSE IF c.fg < 8 /\ c.ch \in {176, 177, 178, 220, 221, 222, 223}
       THEN Swap(c, CASE c.ch = 176 -> 178 [] c.ch = 177 -> 177 [] c.ch = 178 -> 176 [] c.ch = 220 -> 223 [] c.ch = 221 -> 222 [] c.ch = 222 -> 221 [] OTHER -> 220)
  ELSE [c EXCEPT !.blink = TRUE, !.bg = c.bg - 8]

ToBlinkCell(c) == IF c.bg >= 8 /\ c.bg < 16 THEN RemoveIceColor(c) ELSE c                 \* ExtendedBgUntouched
ToIceCell(c) == IF c.blink THEN [c EXCEPT !.blink = FALSE, !.bg = IF c.bg < 8 THEN c.bg + 8 ELSE c.bg] ELSE c   \* BlinkToIceSaturates
ToBlinkCaret(a) == IF a.bg > 7 THEN [a EXCEPT !.blink = TRUE, !.bg = a.bg - 8] ELSE a     \* CaretFollows (no upper bound here)
ToIceCaret(a) == IF a.blink THEN [a EXCEPT !.blink = FALSE, !.bg = IF a.bg < 8 THEN a.bg + 8 ELSE a.bg] ELSE a

\* d = [ice, cells, caret, defpages, slots]
SetIceMode(d, mode) ==
  CASE mode = "blink" -> [d EXCEPT !.ice = mode, !.cells = [i \in 1..Len(d.cells) |-> ToBlinkCell(d.cells[i])], !.caret = ToBlinkCaret(d.caret)]
    [] mode = "ice" -> [d EXCEPT !.ice = mode, !.cells = [i \in 1..Len(d.cells) |-> ToIceCell(d.cells[i])], !.caret = ToIceCaret(d.caret)]
    [] OTHER -> [d EXCEPT !.ice = mode]

Relabel(d, from, to) ==
  [d EXCEPT !.cells = [i \in 1..Len(d.cells) |-> IF d.cells[i].page = from THEN [d.cells[i] EXCEPT !.page = to] ELSE d.cells[i]],
            !.caret = IF d.caret.page = from THEN [d.caret EXCEPT !.page = to] ELSE d.caret,
            !.defpages = [i \in 1..Len(d.defpages) |-> IF d.defpages[i] = from THEN to ELSE d.defpages[i]]]
ReplaceFontUsage(d, from, to) == Relabel(d, from, to)
ChangeFontSlot(d, from, to) ==
  LET moved == IF from \in d.slots THEN (d.slots \ {from}) \cup {to} ELSE d.slots IN            \* SlotMoveIgnoresMissingFont
  [Relabel(d, from, to) EXCEPT !.slots = moved]
RemoveFont(d, f) == [Relabel(d, f, 0) EXCEPT !.slots = d.slots \ {f}]                           \* RemoveFontZero
RemoveFontOk(d, f) == f \in d.slots
=============================================================================
