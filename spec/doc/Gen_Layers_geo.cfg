SPECIFICATION SpecGen
CONSTANTS MaxLayers = 2
          Uni = "geog"
          Border = 1
          Ops = {"remove", "below", "translate", "move"}
          Few = TRUE
          HB <- SmallHB
INVARIANT Emit
CHECK_DEADLOCK FALSE
