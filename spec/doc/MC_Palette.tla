----------------------------- MODULE MC_Palette -----------------------------
(* Exhaustive small-scope check of the palette design (R1) and generator of  *)
(* operation sequences for replay into the Rust implementation (R2).          *)
EXTENDS Palette, TLC, Json
CONSTANTS MaxOps, MaxLen
Cols == { <<0,0,0>>, <<0,0,170>>, <<1,2,3>>, <<3,2,1>> }
VARIABLES colors, hist, lastop
vars == <<colors, hist, lastop>>

Init == /\ colors = <<>>
        /\ hist = <<>> /\ lastop = [op |-> "init", before |-> <<>>, c |-> <<0,0,0>>, ret |-> 0]

Do(name, arg, r) ==
  /\ colors' = r.colors
  /\ hist' = Append(hist, [op |-> name, arg |-> arg])
  /\ lastop' = [op |-> name, before |-> colors, c |-> IF name = "ins" THEN arg ELSE <<0,0,0>>, ret |-> r.ret]

Next == /\ Len(hist) < MaxOps
        /\ \/ \E c \in Cols : Do("ins", c, Insert(colors, c))
           \/ \E c \in Cols, i \in 0..MaxLen : Do("set", <<i, c>>, SetColor(colors, i, c))
           \/ \E c \in Cols, i \in 0..MaxLen, n \in {1, 2} : Do("setn", <<i, c, n>>, SetColor(colors, i, <<c[1], c[2], c[3], n>>))    \* Palette::set_color with a named Color
           \/ \E n \in {0, 1, 3} : Do("resize", n, Resize(colors, n))
           \/ Do("clear", 0, Clear(colors))
Spec == Init /\ [][Next]_vars

\* the design satisfies the property after every insert, in every reachable state
InsertProperty == lastop.op = "ins" => InsertOk(lastop.before, lastop.c, lastop.ret, colors)
\* 6-bit codec: Reduce o Expand = id on 0..63, Expand o Reduce idempotent on 0..255
VgaIdempotent == /\ \A v \in 0..63 : Reduce6(Expand6(v)) = v
                 /\ \A c \in 0..255 : Expand6(Reduce6(Expand6(Reduce6(c)))) = Expand6(Reduce6(c))
Bounded == Len(colors) <= 20
\* generator: history hidden from the fingerprint; one shortest witness per distinct (palette, length of history)
ViewMC == <<colors, lastop, Len(hist)>>
View == <<colors, Len(hist)>>
Emit == Len(hist) > 0 => PrintT(<<"WITNESS", ToJson([hist |-> hist])>>)
=============================================================================
