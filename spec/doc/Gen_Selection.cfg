SPECIFICATION Spec
CONSTANTS BW = 2
          BH = 2
          Coords <- CoordsA
          Stale = TRUE
INVARIANT Emit
VIEW View
CHECK_DEADLOCK FALSE
