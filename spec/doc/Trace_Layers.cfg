SPECIFICATION Spec
CONSTANT HB <- TraceHB
POSTCONDITION Post
CHECK_DEADLOCK FALSE
