------------------------------ MODULE MC_Modes ------------------------------
EXTENDS Modes, TLC
VARIABLE x
Glyphs == {0, 32, 65, 176, 177, 178, 219, 220, 221, 222, 223, 255}
Cols == {0, 1, 7, 8, 9, 15, 16}
Cells == {C(ch, fg, bg, bl, 0) : ch \in Glyphs, fg \in Cols, bg \in Cols, bl \in BOOLEAN}
\* after the conversion to blink mode no cell has an ice-colour background ...
BlinkHasNoIce == \A c \in Cells : LET r == ToBlinkCell(c) IN ~(r.bg >= 8 /\ r.bg < 16)
\* ... the conversion is idempotent ...
BlinkIdempotent == \A c \in Cells : ToBlinkCell(ToBlinkCell(c)) = ToBlinkCell(c)
IceIdempotent == \A c \in Cells : ToIceCell(ToIceCell(c)) = ToIceCell(c)
\* ... the pair of colours on screen is kept (as a set) unless one of the full-block rewrites applies
ColoursKept == \A c \in Cells : (~c.blink /\ c.bg >= 8 /\ c.bg < 16 /\ c.fg # c.bg /\ c.ch \notin {0, 32, 255, 219}) =>
   LET r == ToBlinkCell(c) IN {r.fg, IF r.blink /\ ~c.blink THEN r.bg + 8 ELSE r.bg} = {c.fg, c.bg}
\* a cell that only got the blink bit comes back exactly under the conversion to ice mode
RoundTrip == \A c \in Cells : (~c.blink /\ c.bg >= 8 /\ c.bg < 16 /\ ToBlinkCell(c).ch = c.ch /\ ToBlinkCell(c).blink) => ToIceCell(ToBlinkCell(c)) = c
\* after the conversion to ice mode nothing blinks
IceHasNoBlink == \A c \in Cells : ~ToIceCell(c).blink
\* re-labelling: no use of the old page remains; cells of other pages are untouched
Docs == {[ice |-> "unlimited", cells |-> <<C(65, 7, 0, FALSE, p1), C(66, 7, 0, FALSE, p2)>>, caret |-> [fg |-> 7, bg |-> 0, blink |-> FALSE, page |-> p3], defpages |-> <<p4>>, slots |-> s] :
           p1 \in 0..2, p2 \in 0..2, p3 \in 0..2, p4 \in 0..2, s \in SUBSET (0..2)}
NoUseRemains == \A d \in Docs, f \in 0..2, t \in 0..2 : f # t =>
   LET r == ReplaceFontUsage(d, f, t) IN (\A i \in 1..2 : r.cells[i].page # f) /\ r.caret.page # f /\ r.defpages[1] # f
OthersUntouched == \A d \in Docs, f \in 0..2, t \in 0..2 :
   LET r == ReplaceFontUsage(d, f, t) IN \A i \in 1..2 : d.cells[i].page # f => r.cells[i] = d.cells[i]
SlotCount == \A d \in Docs, f \in 0..2, t \in 0..2 : Cardinality(ChangeFontSlot(d, f, t).slots) <= Cardinality(d.slots)
Init == x = 0
Next == UNCHANGED x
Spec == Init /\ [][Next]_x
=============================================================================
