SPECIFICATION Spec
CONSTANTS MaxOps = 3
          MaxLen = 3
INVARIANT Emit
CONSTRAINT Bounded
VIEW View
CHECK_DEADLOCK FALSE
