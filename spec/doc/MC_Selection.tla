---------------------------- MODULE MC_Selection ----------------------------
(***************************************************************************)
(* R1 for Selection.tla: the state machine of the selection calls over a    *)
(* small buffer, explored exhaustively, with the laws a user of the editor  *)
(* relies on as invariants / action properties; R2: Gen_Selection.cfg        *)
(* exports one call sequence per abstract state (history hidden by VIEW).   *)
(***************************************************************************)
EXTENDS Selection, TLC, Json
CONSTANTS BW, BH,          \* buffer size
          Coords,          \* anchor / lead coordinates tried
          Stale            \* TRUE: the mask may keep the size of an earlier, smaller buffer (resize_buffer without set_mask_size)
VARIABLES st, hist
vars == <<st, hist>>

CoordsA == {-1, 0, 2}
CoordsB == {-1, 1, 3}
Shapes == {"rect", "lines"}
Adds == {"default", "add", "subtract"}
Sels == [ax : Coords, ay : Coords, lx : Coords, ly : Coords, shape : Shapes, add : Adds]
Sizes == IF Stale THEN {<<BW, BH>>, <<1, 1>>, <<BW + 1, 1>>} ELSE {<<BW, BH>>}

Init == \E ms \in Sizes : st = [bw |-> BW, bh |-> BH, mw |-> ms[1], mh |-> ms[2], sel |-> NoSel, mask |-> {}] /\ hist = <<>>

Odd(p, sel) == (p[1] + p[2]) % 2 = 1
Flip(p, sel) == ~sel
Do(r, o) == st' = r.st /\ hist' = Append(hist, o)
Next ==
  \/ \E s \in Sels : Do(SetSelection(st, s), [op |-> "set_selection", a |-> <<s.ax, s.ay, s.lx, s.ly, IF s.shape = "rect" THEN 0 ELSE 1, CASE s.add = "default" -> 0 [] s.add = "add" -> 1 [] OTHER -> 2>>])
  \/ Do(ClearSelection(st), [op |-> "clear_selection", a |-> <<>>])
  \/ Do(Deselect(st), [op |-> "deselect", a |-> <<>>])
  \/ Do(AddSelectionToMask(st), [op |-> "add_selection_to_mask", a |-> <<>>])
  \/ Do(InverseSelection(st), [op |-> "inverse_selection", a |-> <<>>])
  \/ Do(Enumerate(st, Odd), [op |-> "enumerate_selections", a |-> <<3>>])
  \/ Do(Enumerate(st, Flip), [op |-> "enumerate_selections", a |-> <<2>>])
  \/ Do(SetMaskSize(st), [op |-> "set_mask_size", a |-> <<>>])
Spec == Init /\ [][Next]_vars
View == st

G == Grid(st.bw, st.bh)
Fresh == st.mw = st.bw /\ st.mh = st.bh

\* ---- laws ----------------------------------------------------------------------------------------
TypeOK == st.mask \subseteq Grid(MaxI(st.mw, BW + 1), MaxI(st.mh, BH)) /\ (st.sel = NoSel \/ st.sel \in Sels)
\* every cell that reads as selected lies inside the rectangle reported for the whole selection
RectangleCovers == \A p \in G : IsSelected(st, p) => RInside(SelectedRectangle(st), p)
\* a selected cell implies "something is selected"; after clear nothing is
SomethingIffAny == (\E p \in G : IsSelected(st, p)) => SomethingSelected(st)
ClearClears == LET c == ClearSelection(st).st IN ~SomethingSelected(c) /\ \A p \in G : ~IsSelected(c, p)
\* inverse: with a mask as large as the buffer every buffer cell changes its reading, and twice is the identity on the readings
InverseFlips == Fresh => LET i == InverseSelection(st).st IN \A p \in G : IsSelected(i, p) = ~IsSelected(st, p)
InverseTwice == Fresh => LET i == InverseSelection(InverseSelection(st).st).st IN \A p \in G : IsSelected(i, p) = IsSelected(st, p)
\* folding a rectangle selection into the mask does not change what reads as selected inside the buffer ...
AddKeepsReading == (Fresh /\ st.sel # NoSel /\ st.sel.shape = "rect") => LET a == AddSelectionToMask(st).st IN \A p \in G : IsSelected(a, p) = IsSelected(st, p)
\* ... and afterwards the selection itself can be dropped without changing it either
AddThenDeselect == (Fresh /\ st.sel # NoSel /\ st.sel.shape = "rect") => LET a == Deselect(AddSelectionToMask(st).st).st IN \A p \in G : IsSelected(a, p) = IsSelected(st, p)
\* a Lines selection folded into the mask selects exactly the reading-order run between its ends (whatever the ends' order)
LinesSymmetric == (st.sel # NoSel /\ st.sel.shape = "lines") =>
   LinesCells(st.sel, st.mw, st.mh) = LinesCells([st.sel EXCEPT !.ax = st.sel.lx, !.ay = st.sel.ly, !.lx = st.sel.ax, !.ly = st.sel.ay], st.mw, st.mh)
\* the frame: no call selects a cell outside the mask's size, and deselect / set_selection never touch the mask
MaskFrame == [][st'.mask \ st.mask \subseteq Grid(st.mw, st.mh)]_vars
SelOnlyFrame == [][(hist' # hist /\ hist'[Len(hist')].op \in {"set_selection", "deselect", "set_mask_size"}) => st'.mask = st.mask]_vars

\* ---- R2 -----------------------------------------------------------------------------------------
Emit == PrintT(<<"WITNESS", ToJson([bw |-> st.bw, bh |-> st.bh, mw |-> st.mw, mh |-> st.mh, ops |-> hist])>>)
=============================================================================
