--------------------------- MODULE Trace_Selection --------------------------
(***************************************************************************)
(* Validates recorded executions of the editor's selection calls on the     *)
(* real icy_engine::editor::EditState against Selection.tla.                *)
(* Events (harness/src/selection.rs):                                       *)
(*   reset {case, st, g, out, ul}   a fresh EditState: st = the selection    *)
(*          state as the public API shows it (buffer size, mask size, the    *)
(*          selection's fields, the cells get_is_mask_selected reports),     *)
(*          g / out = what Buffer::get_char shows (unicode, transparent),    *)
(*          ul = undo_stack_len                                              *)
(*   op {o, r, st, g, ul, q}        one public call (o = [op, a]) or         *)
(*          "undo" / "redo"; q = the queries asked after it: some            *)
(*          (is_something_selected), rect (get_selected_rectangle), issel    *)
(*          (cells of the probe window for which get_is_selected holds),     *)
(*          ck / copy (get_copy_text: "none", "text" + code points, "panic") *)
(* EVERYTHING here is the model layer (Expect -> drift): none of the listed  *)
(* properties says what a selection means; C08's own check (Trace_Undo)      *)
(* decides whether undo restores the document.  After every event the        *)
(* recorded state is adopted.                                                *)
(* Registers: 4 cases, 5 calls, 6 states compared, 7 query sets compared,    *)
(* 8 bit mask of the calls compared at least once, 9 undo / redo steps       *)
(* compared, 10 calls with a mask size different from the buffer size,       *)
(* 11 engine panics, 12 copy texts compared.                                 *)
(***************************************************************************)
EXTENDS Selection, TraceLib
VARIABLES l, ts, us, rs, base, live
vars == <<l, ts, us, rs, base, live>>

OpOrder == <<"set_selection", "clear_selection", "deselect", "add_selection_to_mask", "inverse_selection", "enumerate_selections",
             "set_mask_size", "resize_buffer", "undo", "redo">>
OpBit(n) == 2 ^ ((CHOOSE i \in 1..Len(OpOrder) : OpOrder[i] = n) - 1)
Mark(n) == IF (TLCGet(8) \div OpBit(n)) % 2 = 0 THEN TLCSet(8, TLCGet(8) + OpBit(n)) ELSE TRUE

ShapeOf(k) == IF k = 0 THEN "rect" ELSE "lines"
AddOf(k) == CASE k = 0 -> "default" [] k = 1 -> "add" [] OTHER -> "subtract"
SelOf(a) == IF Len(a) = 0 THEN NoSel ELSE [ax |-> a[1], ay |-> a[2], lx |-> a[3], ly |-> a[4], shape |-> ShapeOf(a[5]), add |-> AddOf(a[6])]
Cells(xs) == {<<xs[i][1], xs[i][2]>> : i \in 1..Len(xs)}
\* the size of the selection mask is not observable (the recorded mw, mh are those of the tool overlay mask, equal to it in a fresh
\* EditState): it is model state, taken from the trace at reset only
StOf(r) == [bw |-> r.bw, bh |-> r.bh, mw |-> r.mw, mh |-> r.mh, sel |-> SelOf(r.sel), mask |-> Cells(r.mask)]
Obs(s) == [bw |-> s.bw, bh |-> s.bh, sel |-> s.sel, mask |-> Visible(s)]
ObsE(r) == [bw |-> r.bw, bh |-> r.bh, sel |-> SelOf(r.sel), mask |-> Cells(r.mask)]
ShownSt(s) == [s EXCEPT !.mask = Visible(s)]
Probe(s) == {<<x, y>> : x \in (-2)..(MaxI(s.bw, s.mw) + 1), y \in (-2)..(MaxI(s.bh, s.mh) + 1)}

Init == l = 1 /\ ts = [bw |-> 0, bh |-> 0, mw |-> 0, mh |-> 0, sel |-> NoSel, mask |-> {}] /\ us = <<>> /\ rs = <<>> /\ base = 0 /\ live = FALSE /\ InitRegs

Odd(p, sel) == (p[1] + p[2]) % 2 = 1
Flip(p, sel) == ~sel
Keep(p, sel) == sel
\* What an undone / redone step restores.  The steps that save the mask save it WITH its size (MaskSizeTravels); set_selection /
\* deselect touch the selection only; a replayed resize_buffer gives the mask the buffer's size, which the call itself only
\* does without resize_layer (ResizeOnlyOnReplay); a replayed add_selection_to_mask folds the saved selection into the
\* current mask; a replayed clear_selection empties the current mask.
MaskOf(cur, snap) == [cur EXCEPT !.mask = snap.mask, !.mw = snap.mw, !.mh = snap.mh]
Resized(s) == [s EXCEPT !.mw = s.bw, !.mh = s.bh]
Undo(cur, e) ==
  CASE e.op \in {"set_selection", "deselect"} -> [cur EXCEPT !.sel = e.b.sel]
    [] e.op \in {"clear_selection", "inverse_selection"} -> [MaskOf(cur, e.b) EXCEPT !.sel = e.b.sel]
    [] e.op \in {"add_selection_to_mask", "enumerate_selections"} -> MaskOf(cur, e.b)
    [] e.op = "resize_buffer" -> Resized([cur EXCEPT !.bw = e.b.bw, !.bh = e.b.bh])
Redo(cur, e) ==
  CASE e.op = "set_selection" -> [cur EXCEPT !.sel = e.a.sel]
    [] e.op = "deselect" -> [cur EXCEPT !.sel = NoSel]
    [] e.op = "clear_selection" -> [cur EXCEPT !.sel = NoSel, !.mask = {}]
    [] e.op = "inverse_selection" -> [MaskOf(cur, e.a) EXCEPT !.sel = NoSel]
    [] e.op = "enumerate_selections" -> MaskOf(cur, e.a)
    [] e.op = "add_selection_to_mask" ->
         [cur EXCEPT !.mask = IF e.b.sel.add = "subtract" THEN cur.mask \ SelCells(e.b.sel, cur.mw, cur.mh) ELSE cur.mask \cup SelCells(e.b.sel, cur.mw, cur.mh)]
    [] e.op = "resize_buffer" -> Resized([cur EXCEPT !.bw = e.a.bw, !.bh = e.a.bh])

\* the model's answer to one call: [st, us, rs] (push = a step recorded: the redo history is discarded)
Pushed(o, before, after) == [st |-> after, us |-> Append(us, [op |-> o.op, b |-> before, a |-> after]), rs |-> <<>>]
Same(after) == [st |-> after, us |-> us, rs |-> rs]
Step(o, r) == IF r.push THEN Pushed(o, ts, r.st) ELSE Same(r.st)
Model(e) ==
  LET o == e.o IN
  CASE o.op = "set_selection" -> Step(o, SetSelection(ts, SelOf(o.a)))
    [] o.op = "clear_selection" -> Step(o, ClearSelection(ts))
    [] o.op = "deselect" -> Step(o, Deselect(ts))
    [] o.op = "add_selection_to_mask" -> Step(o, AddSelectionToMask(ts))
    [] o.op = "inverse_selection" -> Step(o, InverseSelection(ts))
    [] o.op = "enumerate_selections" ->
         LET r == CASE o.a[1] = 3 -> Enumerate(ts, Odd) [] o.a[1] = 2 -> Enumerate(ts, Flip) [] o.a[1] = 1 -> [st |-> ts, m2 |-> ts.mask] [] OTHER -> Enumerate(ts, Keep)
         IN \* a step is recorded when the stored representation changed: taken from the trace, but a visible change must record one
            IF e.ul > base + Len(us) THEN Pushed(o, ts, r.st) ELSE Same(r.st)
    [] o.op = "set_mask_size" -> Step(o, SetMaskSize(ts))
    [] o.op = "resize_buffer" -> Pushed(o, ts, IF o.a[3] = 0 THEN Resized([ts EXCEPT !.bw = o.a[1], !.bh = o.a[2]]) ELSE [ts EXCEPT !.bw = o.a[1], !.bh = o.a[2]])
    [] o.op = "undo" -> IF us = <<>> THEN Same(ts) ELSE [st |-> Undo(ts, us[Len(us)]), us |-> SubSeq(us, 1, Len(us) - 1), rs |-> Append(rs, us[Len(us)])]
    [] o.op = "redo" -> IF rs = <<>> THEN Same(ts) ELSE [st |-> Redo(ts, rs[Len(rs)]), us |-> Append(us, rs[Len(rs)]), rs |-> SubSeq(rs, 1, Len(rs) - 1)]

Queries(e, s) ==
  /\ Bump(7)
  /\ Expect(e.q.some = SomethingSelected(s), "query:is_something_selected", l, [op |-> e.o.op, model |-> SomethingSelected(s), engine |-> e.q.some, st |-> ShownSt(s)])
  /\ LET r == SelectedRectangle(s) IN
     Expect(e.q.rect = <<r.x, r.y, r.w, r.h>>, "query:get_selected_rectangle", l, [op |-> e.o.op, model |-> <<r.x, r.y, r.w, r.h>>, engine |-> e.q.rect, st |-> ShownSt(s)])
  /\ LET m == {p \in Probe(s) : IsSelected(s, p)} IN
     Expect(Cells(e.q.issel) = m, "query:get_is_selected", l, [op |-> e.o.op, onlymodel |-> m \ Cells(e.q.issel), onlyengine |-> Cells(e.q.issel) \ m, st |-> ShownSt(s)])
  /\ IF s.sel = NoSel THEN Expect(e.q.ck = "none", "query:get_copy_text", l, [op |-> e.o.op, model |-> "none", engine |-> e.q.ck])
     ELSE IF e.q.ck = "panic" THEN Bump(11) /\ Expect(FALSE, "query:get_copy_text-panics", l, [op |-> e.o.op, sel |-> s.sel, site |-> e.q.site])
     ELSE Bump(12) /\ LET c == CopyText(s, e.g, e.out) IN Expect(e.q.ck = "text" /\ e.q.copy = c, "query:get_copy_text", l, [op |-> e.o.op, sel |-> s.sel, model |-> c, engine |-> e.q.copy])

Judge(e, m) ==
  /\ Bump(5)
  /\ (IF ts.mw # ts.bw \/ ts.mh # ts.bh THEN Bump(10) ELSE TRUE)
  /\ (IF e.r = "panic" THEN Bump(11) ELSE TRUE)
  /\ Expect(e.r = "ok", "result:" \o e.o.op, l, [op |-> e.o.op, a |-> e.o.a, engine |-> e.r, site |-> IF Has(e, "site") THEN e.site ELSE ""])
  /\ (IF e.r = "ok"
      THEN /\ Bump(6) /\ Mark(e.o.op)
           /\ (IF e.o.op \in {"undo", "redo"} THEN Bump(9) ELSE TRUE)
           /\ Expect(Obs(m.st) = ObsE(e.st), "state:" \o e.o.op, l, [op |-> e.o.op, a |-> e.o.a, before |-> ShownSt(ts), model |-> ShownSt(m.st), engine |-> StOf(e.st)])
           /\ Expect(e.ul = base + Len(m.us), "undo-len:" \o e.o.op, l, [op |-> e.o.op, model |-> base + Len(m.us), engine |-> e.ul])
           /\ (IF e.o.op = "enumerate_selections" THEN Expect(Visible(m.st) # Visible(ts) => e.ul > base + Len(us), "enumerate-records-a-visible-change", l, [a |-> e.o.a]) ELSE TRUE)
      ELSE TRUE)
  \* adopt: the engine's visible state where the model disagrees (the stored cells beyond the mask's size are then unknown)
  /\ LET agreed == e.r = "ok" /\ Obs(m.st) = ObsE(e.st) /\ e.ul = base + Len(m.us)
         s2 == IF agreed THEN m.st ELSE [StOf(e.st) EXCEPT !.mw = m.st.mw, !.mh = m.st.mh] IN
     /\ ts' = s2
     /\ us' = IF e.ul = base + Len(m.us) THEN m.us ELSE <<>>        \* the history is kept while its length is explained
     /\ rs' = IF e.ul = base + Len(m.us) THEN m.rs ELSE <<>>
     /\ base' = IF e.ul = base + Len(m.us) THEN base ELSE e.ul
     /\ (IF e.r # "panic" THEN Queries(e, s2) ELSE TRUE)
  /\ live' = (e.r # "panic")

Next ==
  /\ l <= Len(Rec)
  /\ LET e == Rec[l] IN
     /\ Bump(3)
     /\ CASE e.ev = "reset" -> Bump(4) /\ ts' = StOf(e.st) /\ us' = <<>> /\ rs' = <<>> /\ base' = e.ul /\ live' = TRUE
          [] e.ev = "op" /\ live -> Judge(e, Model(e))
          [] e.ev = "op" -> UNCHANGED <<ts, us, rs, base, live>>
          [] OTHER -> Viol("TOOL", "unknown-event", l, e.ev) /\ UNCHANGED <<ts, us, rs, base, live>>
  /\ l' = l + 1
Spec == Init /\ [][Next]_vars
=============================================================================
