---------------------------- MODULE Trace_Palette ----------------------------
(* Validates recorded executions of the real Palette code against Palette.tla *)
(* (C16).  Events (see harness/src/small.rs, fn c16):                         *)
(*  reset{colors} ins{c,ret,colors} set{i,c,colors} setn{i,c,n,colors} resize clear *)
(*  add{via,colors}   - colour added through a terminal sequence (SGR 38/48;2,*)
(*                      CSI ..t): index-stability only                        *)
(*  file{fmt,in,out,ok}  export -> import of a palette file                   *)
(*  vga{r,g,out}      - 64 colours <<r,g,b>>, b=0..63, through the 6-bit codec*)
EXTENDS Palette, TraceLib
VARIABLES l, colors, lk
vars == <<l, colors, lk>>
\* lk: what every index the API has defined so far (returned by an insert, or given to a set - whether or not the stored vector
\* grew) resolved to after the previous operation
Init == l = 1 /\ colors = <<>> /\ lk = <<>> /\ InitRegs
LkOf(e) == IF Has(e, "lk") THEN [i \in 1..Len(e.lk) |-> <<e.lk[i][1], e.lk[i][2], e.lk[i][3]>>] ELSE lk

Next ==
  /\ l <= Len(Rec)
  /\ LET e == Rec[l] IN
     /\ Bump(3)
     /\ lk' = IF e.ev = "reset" THEN [i \in 1..Len(e.colors) |-> <<e.colors[i][1], e.colors[i][2], e.colors[i][3]>>] ELSE LkOf(e)
     /\ CASE e.ev = "reset" -> colors' = e.colors
          [] e.ev = "ins" ->
               LET m == Insert(colors, e.c) IN
               /\ Bump(4)
               /\ Check(InsertResolves(colors, e.c, e.ret, e.colors), "C16", "InsertResolves", l, [c |-> e.c, ret |-> e.ret, len |-> Len(e.colors)])
               /\ Check(IndexStable(colors, e.colors), "C16", "IndexStable", l, [c |-> e.c, ret |-> e.ret])
               /\ Check(~Has(e, "lk") \/ \A i \in 1..Len(lk) : i <= Len(e.lk) /\ LkOf(e)[i] = lk[i], "C16", "IndexStable", l, [c |-> e.c, ret |-> e.ret, via |-> "lookup-of-defined-indices", defined |-> Len(lk)])
               /\ Check(InsertIdempotent(colors, e.c, e.ret, e.colors), "C16", "InsertIdempotent", l, [c |-> e.c, ret |-> e.ret])
               /\ Expect(m.colors = e.colors /\ m.ret = e.ret, "ins", l, [exp |-> m.ret, got |-> e.ret])
               /\ colors' = e.colors
          [] e.ev = "add" ->
               /\ Bump(5)
               /\ Check(IndexStable(colors, e.colors), "C16", "IndexStable", l, [via |-> e.via])
               /\ colors' = e.colors
          [] e.ev = "addc" ->    \* colours requested through SGR 38;2 / 48;2: the caret's index resolves to exactly the requested value
               /\ Bump(5)
               /\ Check(IndexStable(colors, e.colors), "C16", "IndexStable", l, [via |-> e.via])
               /\ Check(~Has(e.fg, "req") \/ e.fg.got = e.fg.req, "C16", "InsertResolves", l, [via |-> e.via, which |-> "foreground", c |-> IF Has(e.fg, "req") THEN e.fg.req ELSE <<>>, got |-> IF Has(e.fg, "got") THEN e.fg.got ELSE <<>>])
               /\ Check(~Has(e.bg, "req") \/ e.bg.got = e.bg.req, "C16", "InsertResolves", l, [via |-> e.via, which |-> "background", c |-> IF Has(e.bg, "req") THEN e.bg.req ELSE <<>>, got |-> IF Has(e.bg, "got") THEN e.bg.got ELSE <<>>])
               /\ colors' = e.colors
          [] e.ev = "setn" ->    \* Palette::set_color with a named colour: the trace records RGB only
               /\ Expect(SetColor(colors, e.i, e.c).colors = e.colors, "setn", l, [i |-> e.i])
               /\ colors' = e.colors
          [] e.ev = "set" ->
               /\ Expect(SetColor(colors, e.i, e.c).colors = e.colors, "set", l, [i |-> e.i])
               /\ colors' = e.colors
          [] e.ev = "resize" ->
               /\ Expect(Resize(colors, e.n).colors = e.colors, "resize", l, [n |-> e.n])
               /\ colors' = e.colors
          [] e.ev = "clear" ->
               /\ Expect(e.colors = <<>>, "clear", l, <<>>)
               /\ colors' = e.colors
          [] e.ev = "file" ->
               /\ Bump(6)
               /\ Check(e.ok = 1 /\ e.out = e.in, "C16", "FileRoundTrip", l, [fmt |-> e.fmt, n |-> Len(e.in), nout |-> Len(e.out), ok |-> e.ok, variant |-> e.variant])
               /\ UNCHANGED colors
          [] e.ev = "vga" ->
               /\ Bump(7)
               /\ Check(\A b \in 0..63 : e.out[b + 1] = <<e.r, e.g, b>>, "C16", "Vga6Idempotent", l, [r |-> e.r, g |-> e.g])
               /\ Expect(\A b \in 0..63 : e.exp[b + 1] = <<Expand6(e.r), Expand6(e.g), Expand6(b)>>, "vga-expand", l, [r |-> e.r, g |-> e.g])
               /\ UNCHANGED colors
          [] e.ev = "vga8" ->    \* 8-bit value c through reduce/expand twice: idempotent
               /\ Bump(7)
               /\ Check(e.twice = e.once, "C16", "Vga8Idempotent", l, [c |-> e.c])
               /\ Expect(e.once = Expand6(Reduce6(e.c)), "vga8", l, [c |-> e.c])
               /\ UNCHANGED colors
          [] OTHER -> Viol("TOOL", "unknown-event", l, e.ev) /\ UNCHANGED colors
  /\ l' = l + 1
Spec == Init /\ [][Next]_vars
=============================================================================
