------------------------------ MODULE MC_Layers ------------------------------
(* R1: the declarative Shown of Layers.tla satisfies every stacking law and equals the top-down walk, for all small  *)
(*     stacks; R2: small stacks x transformations exported as cases for the Rust driver (harness/src/layers.rs).    *)
(*                                                                                                                  *)
(* A state is a stack under construction (one layer is pushed per step) and, for the generator, the transformation  *)
(* chosen for it.  Universes of layers (constant Uni):                                                              *)
(*   "view" : 1x1 layers at <<0,0>> (covering the probe position) or <<1,0>> (not covering it), every mode / alpha / *)
(*            visible combination, 4-value cell alphabet: everything Shown can distinguish at ONE position;         *)
(*   "viewr": the same with one representative for hidden and for non-covering layers (for 3-layer stacks);          *)
(*   "geo"  : Normal-mode layers of size <= 2x2 at offsets -1..1 with position-dependent content (rectangle tests,   *)
(*            translation and move laws).                                                                           *)
EXTENDS Layers, TLC, Json
CONSTANTS MaxLayers, Uni, Border, Ops, Few   \* Ops: transformation kinds tried; Few: reduced parameter sets (generator)
VARIABLES stack, tr
vars == <<stack, tr>>

SmallHB == [w |-> 8, h |-> 16,
            bits |-> [c \in 1..256 |-> CASE c - 1 = 219 -> <<64, 64>> [] c - 1 = 220 -> <<0, 64>> [] c - 1 = 223 -> <<64, 0>>
                                         [] (c - 1) % 4 = 2 /\ c - 1 >= 65 /\ c - 1 < 128 -> <<40, 10>>
                                         [] (c - 1) % 4 = 3 /\ c - 1 >= 65 /\ c - 1 < 128 -> <<10, 40>> [] OTHER -> <<0, 0>>]]

\* the 4-value cell alphabet; glyph and transparent cells depend on the layer index i and the cell index n so that
\* contributions of different layers / positions can be told apart
Inv == <<>>
Glyph(i, n) == <<65 + (4 * i) + n, 8 + i, i, 0, 0>>
Blank == <<32, 7, 0, 0, 0>>
Transp(i, n) == IF n % 2 = 0 THEN <<HALF_TOP, 2 + i, T, 0, 0>> ELSE <<HALF_BOTTOM, T, 2 + i, 0, 0>>
Alphabet(i, n) == {Inv, Glyph(i, n), Blank, Transp(i, n)}

Lay(o, s, m, a, v, rows) == [o |-> o, s |-> s, m |-> m, a |-> a, v |-> v, rows |-> rows]

ViewLayers(i) == {Lay(o, <<1, 1>>, m, a, v, <<<<c>>>>) : o \in {<<0, 0>>, <<1, 0>>}, m \in 0..2, a \in 0..1, v \in 0..1, c \in Alphabet(i, 0)}
ViewReduced(i) ==
  {Lay(<<0, 0>>, <<1, 1>>, NORMAL, a, 1, <<<<c>>>>) : a \in 0..1, c \in Alphabet(i, 0)}
  \cup {Lay(<<0, 0>>, <<1, 1>>, m, 1, 1, <<<<c>>>>) : m \in {CHARS, ATTRS}, c \in Alphabet(i, 0)}
  \cup {Lay(<<0, 0>>, <<1, 1>>, NORMAL, 0, 0, <<<<Glyph(i, 0)>>>>), Lay(<<1, 0>>, <<1, 1>>, NORMAL, 0, 1, <<<<Glyph(i, 0)>>>>)}
\* content patterns of a w x h layer: all glyphs / glyphs with a hole at the last cell / first cell transparent
GeoRows(i, w, h, pat) ==
  [y \in 1..h |-> [x \in 1..w |->
     LET n == (x - 1) + (2 * (y - 1)) IN
     IF pat = 1 /\ x = w /\ y = h THEN Inv
     ELSE IF pat = 2 /\ x = 1 /\ y = 1 THEN Transp(i, i)
     ELSE Glyph(i, n)]]
\* the bottom layer stays at the origin; "geo": bottom layer 1x1 or 2x2; "geof": every size; "geog": the generator's subset
GeoLayers(i) ==
  LET offs == IF i = 1 THEN {0} ELSE -1..1
      sizes == IF i = 1 /\ Uni = "geo" THEN {<<1, 1>>, <<2, 2>>}
               ELSE IF i = 1 /\ Uni = "geog" THEN {<<2, 2>>}
               ELSE {<<w, h>> : w \in 1..2, h \in 1..2}
      pats == IF i > 1 /\ Uni = "geog" THEN {0, 2} ELSE 0..2 IN
  {Lay(<<ox, oy>>, sz, NORMAL, a, 1, GeoRows(i, sz[1], sz[2], pat)) : ox \in offs, oy \in offs, sz \in sizes, a \in 0..1, pat \in pats}
IsGeo == Uni \in {"geo", "geof", "geog"}
Universe(i) == CASE Uni = "view" -> ViewLayers(i) [] Uni = "viewr" -> ViewReduced(i) [] IsGeo -> GeoLayers(i)

\* transformations tried on a stack
Tr(op, k, d, layer) == [op |-> op, k |-> k, d |-> d, layer |-> layer]
EmptyRows(w, h) == [y \in 1..h |-> [x \in 1..w |-> Inv]]
EmptyLayers == IF Few THEN {Lay(<<0, 0>>, <<2, 1>>, m, 1, 1, EmptyRows(2, 1)) : m \in 0..2}
               ELSE {Lay(<<0, 0>>, <<1, 1>>, m, 1, 1, EmptyRows(1, 1)) : m \in 0..2}
                    \cup {Lay(<<-1, -1>>, <<3, 2>>, CHARS, 1, 1, <<>>)}     \* no rows allocated at all
HiddenEdits(i) == {Lay(<<0, 0>>, <<2, 1>>, NORMAL, 0, 0, <<<<Glyph(i + 1, 1), Glyph(i + 1, 2)>>>>)}
                  \cup (IF Few THEN {} ELSE {Lay(<<0, -1>>, <<1, 2>>, CHARS, 1, 0, <<<<Glyph(i + 1, 1)>>, <<Glyph(i + 1, 2)>>>>)})
Ds == IF Few THEN {<<1, 0>>, <<-1, 1>>}
      ELSE IF IsGeo THEN {<<1, 0>>, <<0, -1>>, <<-1, 1>>, <<2, 2>>} ELSE {<<1, 0>>, <<-1, 1>>}
Transforms(S) ==
  LET n == Len(S) IN
  {t \in
    {Tr("remove", k, <<0, 0>>, <<>>) : k \in 1..n}
    \cup {Tr("edit", k, <<0, 0>>, L) : k \in {j \in 1..n : S[j].v = 0}, L \in HiddenEdits(n)}
    \cup {Tr("below", k, <<0, 0>>, <<>>) : k \in {j \in 2..n : S[j].m = NORMAL /\ S[j].a = 0 /\ S[j].v = 1}}
    \cup UNION {{Tr("insert", k, <<0, 0>>, L) : L \in {E \in EmptyLayers : Few /\ n > 2 => E.m = k % 3}} : k \in 0..n}
    \cup {Tr("translate", 0, d, <<>>) : d \in Ds}
    \cup {Tr("move", k, d, <<>>) : k \in 1..n, d \in Ds} : t.op \in Ops}

NoTr == Tr("none", 0, <<0, 0>>, <<>>)
Init == stack = <<>> /\ tr = NoTr
Push == /\ tr = NoTr /\ Len(stack) < MaxLayers
        /\ \E L \in Universe(Len(stack) + 1) : stack' = Append(stack, L)
        /\ UNCHANGED tr
Choose == /\ tr = NoTr /\ stack # <<>>
          /\ \E t \in Transforms(stack) : tr' = t
          /\ UNCHANGED stack
SpecMC == Init /\ [][Push]_vars
SpecGen == Init /\ [][Push \/ Choose]_vars

Box(S, t) == BBox(S, Apply(t, S), Border)
\* R1 invariants.  What stack A shows is evaluated once per state on a box that contains every Box(stack, t).
BigBox == IF IsGeo THEN <<-3 - Border, -3 - Border, 5 + Border, 5 + Border>> ELSE <<-1 - Border, -1 - Border, 2 + Border, 1 + Border>>
AllLaws ==
  LET gA == TLCEval([p \in BoxPos(BigBox) |-> Shown(stack, p)]) IN
  \A t \in Transforms(stack) :
     LET B == Apply(t, stack)
         box == BBox(stack, B, Border) IN
     /\ Pre(t, stack)
     /\ BoxPos(box) \subseteq BoxPos(BigBox)
     /\ Fails(t, stack, B, box, LAMBDA p : gA[p], LAMBDA p : Shown(B, p)) = {}
ShownIsWalk == \A p \in BoxPos(BBox(stack, <<>>, Border)) : Shown(stack, p) = Walk(stack, p)
\* the laws are not vacuous: some transformation of this stack makes a claim about a visible cell
\* R2: one case per (stack, transformation)
Emit == tr.op # "none" => PrintT(<<"WITNESS", ToJson([tr |-> tr, A |-> stack, B |-> Apply(tr, stack)])>>)
=============================================================================
