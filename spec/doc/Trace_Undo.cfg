SPECIFICATION Spec
CONSTANT UNK = UNK
POSTCONDITION Post
CHECK_DEADLOCK FALSE
