SPECIFICATION Spec
CONSTANTS MaxOps = 7
          MaxLen = 5
INVARIANT InsertProperty
INVARIANT VgaIdempotent
CONSTRAINT Bounded
VIEW ViewMC
CHECK_DEADLOCK FALSE
