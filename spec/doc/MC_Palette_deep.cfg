SPECIFICATION Spec
CONSTANTS MaxOps = 5
          MaxLen = 4
INVARIANT InsertProperty
INVARIANT VgaIdempotent
CONSTRAINT Bounded
VIEW ViewMC
CHECK_DEADLOCK FALSE
