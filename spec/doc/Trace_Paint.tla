----------------------------- MODULE Trace_Paint ----------------------------
(***************************************************************************)
(* Validates recorded calls of icy_engine::paint::get_halfblock and          *)
(* get_line_points against Paint.tla (harness/src/paint.rs).  Events:        *)
(*   ink  {w, h, g: [[code, has, up, lo] ..]}   glyph facts of the font     *)
(*   hb   {cur, top, color, tflag, ctransp, r, out}                          *)
(*   line {f, t, p}                                                          *)
(* Model layer only (Expect -> drift).  Registers: 4 half-block calls        *)
(* compared, 5 lines compared, 6 points compared, 7 engine panics,           *)
(* 8 calls whose result was rewritten by Optimize (flip / blank).            *)
(***************************************************************************)
EXTENDS Paint, TraceLib
VARIABLES l, ink
vars == <<l, ink>>

Init == l = 1 /\ ink = [w |-> 8, h |-> 16, g |-> <<>>] /\ InitRegs
InkFor(ch) ==
  LET ks == {i \in 1..Len(ink.g) : ink.g[i][1] = ch} IN
  IF ks = {} THEN [has |-> FALSE, up |-> 0, lo |-> 0, w |-> ink.w, h |-> ink.h]
  ELSE LET i == CHOOSE i \in ks : TRUE IN [has |-> ink.g[i][2] = 1, up |-> ink.g[i][3], lo |-> ink.g[i][4], w |-> ink.w, h |-> ink.h]
CellOf(a) == Cell(a[1], a[2], a[3])
Raw(cur, i, top, color, t) ==
  LET up == Upper(cur, i)  lo == Lower(cur, i) IN
  IF (top /\ lo = color) \/ (~top /\ up = color) THEN Cell(Full, color, 0) ELSE IF top THEN Cell(Top, color, IF t THEN Transp ELSE lo) ELSE Cell(Bottom, color, IF t THEN Transp ELSE up)

Next ==
  /\ l <= Len(Rec)
  /\ LET e == Rec[l] IN
     /\ Bump(3)
     /\ CASE e.ev = "ink" -> ink' = [w |-> e.w, h |-> e.h, g |-> e.g]
          [] e.ev = "hb" ->
               /\ UNCHANGED ink
               /\ IF e.r = "panic" THEN Bump(7) /\ Expect(FALSE, "get_halfblock-panics", l, [cur |-> e.cur, color |-> e.color, site |-> e.site])
                  ELSE LET cur == CellOf(e.cur)
                           m == GetHalfblock(cur, InkFor(cur.ch), e.top, e.color, e.tflag, e.ctransp) IN
                       /\ Bump(4)
                       /\ (IF m # Raw(cur, InkFor(cur.ch), e.top, e.color, e.ctransp /\ e.tflag) THEN Bump(8) ELSE TRUE)
                       /\ Expect(CellOf(e.out) = m, "get_halfblock", l, [cur |-> e.cur, top |-> e.top, color |-> e.color, tflag |-> e.tflag, model |-> m, engine |-> e.out])
          [] e.ev = "line" ->
               /\ UNCHANGED ink
               /\ Bump(5) /\ BumpBy(6, Len(e.p))
               /\ LET m == LinePoints(<<e.f[1], e.f[2]>>, <<e.t[1], e.t[2]>>) IN
                  Expect(m = [i \in 1..Len(e.p) |-> <<e.p[i][1], e.p[i][2]>>], "get_line_points", l, [f |-> e.f, t |-> e.t, model |-> m, engine |-> e.p])
          [] OTHER -> Viol("TOOL", "unknown-event", l, e.ev) /\ UNCHANGED ink
  /\ l' = l + 1
Spec == Init /\ [][Next]_vars
=============================================================================
