SPECIFICATION Spec
INVARIANT TableOk
INVARIANT PixelsOk
INVARIANT OnlyAllowed
INVARIANT Takes
CHECK_DEADLOCK FALSE
