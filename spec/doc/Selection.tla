----------------------------- MODULE Selection ------------------------------
(***************************************************************************)
(* What the editor's SELECTION means: src/selection.rs (Selection: anchor,   *)
(* lead, shape, add type), src/overlay_mask.rs + src/selection_mask.rs (the  *)
(* mask: a set of cells inside the mask's own size), and the public calls of *)
(* src/editor/selection_operations.rs and EditState::get_copy_text.          *)
(*                                                                         *)
(* Abstract state (a record):                                               *)
(*   bw, bh   buffer size            mw, mh   size the mask was given        *)
(*            (EditState::from_buffer / set_mask_size copy the buffer size;  *)
(*            resize_buffer does NOT, so the two can differ - modelled, it   *)
(*            is what the code does)                                         *)
(*   sel      NoSel or [ax, ay, lx, ly, shape, add]                          *)
(*   mask     set of <<x, y>>: the cells STORED as selected (each was inside  *)
(*            the mask's size when it was set); a cell reads as selected    *)
(*            only while it is also inside the current size (Visible)       *)
(* One operator per public call (one linearization point each: the call's   *)
(* return).  Deliberate deviations of the code from what one might expect   *)
(* are modelled and named:                                                  *)
(*   RectExclusive    a selection's rectangle is min .. min + |anchor-lead|, *)
(*                    i.e. the lead row / column is NOT part of it           *)
(*   InverseUsesRect  inverse_selection folds a Lines selection into the     *)
(*                    mask through its rectangle, add_selection_to_mask      *)
(*                    through the reading-order run                          *)
(*   CopyRowInclusive get_copy_text of a Rectangle selection copies rows     *)
(*                    min.y ..= max.y (one more than the rectangle) and      *)
(*                    columns min.x .. max.x                                 *)
(*   StaleMaskSize    cells outside the size the mask was given can never    *)
(*                    be selected in the mask                                *)
(***************************************************************************)
EXTENDS Integers, Sequences, FiniteSets

NoSel == <<>>
Abs(n) == IF n < 0 THEN -n ELSE n
MinI(a, b) == IF a <= b THEN a ELSE b
MaxI(a, b) == IF a >= b THEN a ELSE b

Grid(w, h) == {<<x, y>> : x \in 0..(w - 1), y \in 0..(h - 1)}

\* ---- rectangles (src/lib.rs Rectangle) -----------------------------------
Rect(x, y, w, h) == [x |-> x, y |-> y, w |-> w, h |-> h]
REmpty(r) == r.w <= 0 \/ r.h <= 0
RInside(r, p) == r.x <= p[1] /\ r.y <= p[2] /\ p[1] < r.x + r.w /\ p[2] < r.y + r.h
RUnion(a, b) ==
  IF REmpty(a) THEN b ELSE IF REmpty(b) THEN a
  ELSE LET x0 == MinI(a.x, b.x)  y0 == MinI(a.y, b.y)
           x1 == MaxI(a.x + a.w, b.x + b.w)  y1 == MaxI(a.y + a.h, b.y + b.h)
       IN Rect(x0, y0, x1 - x0, y1 - y0)

\* ---- Selection (src/selection.rs) -----------------------------------------
SelRect(s) == Rect(MinI(s.ax, s.lx), MinI(s.ay, s.ly), Abs(s.ax - s.lx), Abs(s.ay - s.ly))      \* RectExclusive
SelEmpty(s) == s.ax = s.lx /\ s.ay = s.ly
\* Position's order: by row, then by column
PosLess(a, b) == a[2] < b[2] \/ (a[2] = b[2] /\ a[1] < b[1])
PosLeq(a, b) == a = b \/ PosLess(a, b)
LinesStart(s) == IF PosLess(<<s.lx, s.ly>>, <<s.ax, s.ay>>) THEN <<s.lx, s.ly>> ELSE <<s.ax, s.ay>>
LinesEnd(s) == IF PosLess(<<s.lx, s.ly>>, <<s.ax, s.ay>>) THEN <<s.ax, s.ay>> ELSE <<s.lx, s.ly>>
\* the cells the reading-order walk of SelectionMask::add_selection visits that the mask can hold: the walk starts at the smaller
\* end, steps right and wraps to column 0 of the next row at the MASK's width, and stops before the larger end
LinesCells(s, mw, mh) == {p \in Grid(mw, mh) : PosLeq(LinesStart(s), p) /\ PosLess(p, LinesEnd(s))}
RectCells(r, mw, mh) == {p \in Grid(mw, mh) : RInside(r, p)}
SelCells(s, mw, mh) == IF s.shape = "rect" THEN RectCells(SelRect(s), mw, mh) ELSE LinesCells(s, mw, mh)

\* ---- queries --------------------------------------------------------------
Visible(st) == st.mask \cap Grid(st.mw, st.mh)
IsMaskSelected(st, p) == p \in Visible(st)
IsSelected(st, p) ==
  IF st.sel # NoSel /\ RInside(SelRect(st.sel), p) THEN st.sel.add # "subtract" ELSE IsMaskSelected(st, p)
SomethingSelected(st) == st.sel # NoSel \/ st.mask # {}
MaskRect(m) ==
  IF m = {} THEN Rect(0, 0, 0, 0)
  ELSE LET xs == {p[1] : p \in m}  ys == {p[2] : p \in m}
           x0 == CHOOSE x \in xs : \A z \in xs : x <= z   x1 == CHOOSE x \in xs : \A z \in xs : x >= z
           y0 == CHOOSE y \in ys : \A z \in ys : y <= z   y1 == CHOOSE y \in ys : \A z \in ys : y >= z
       IN Rect(x0, y0, x1 - x0 + 1, y1 - y0 + 1)
SelectedRectangle(st) ==
  LET r == MaskRect(st.mask) IN
  IF st.sel = NoSel THEN r
  ELSE IF REmpty(r) THEN SelRect(st.sel) ELSE RUnion(r, SelRect(st.sel))

\* ---- copy text: g[y + 1][x + 1] = <<unicode, transparent>> as Buffer::get_char shows the cell (x, y) of a window that starts at
\* (0, 0) and covers every coordinate used (get_char does not clip to the buffer's size: NoClip), out = the same for any other cell
CellAt(g, out, bw, bh, x, y) == IF x >= 0 /\ y >= 0 /\ y < Len(g) /\ x < Len(g[y + 1]) THEN g[y + 1][x + 1] ELSE out
\* Buffer::get_line_length: columns 0 .. width - 1 of ANY row
LineLen(g, bw, bh, y) ==
  LET nt == {x \in 0..(bw - 1) : CellAt(g, <<0, 1>>, bw, bh, x, y)[2] = 0} IN IF nt = {} THEN 0 ELSE (CHOOSE x \in nt : \A z \in nt : x >= z) + 1
Run(g, out, bw, bh, y, x0, x1) == [i \in 1..MaxI(0, x1 - x0) |-> CellAt(g, out, bw, bh, x0 + i - 1, y)[1]]
RECURSIVE Concat(_, _, _)
Concat(F(_), a, b) == IF a > b THEN <<>> ELSE F(a) \o Concat(F, a + 1, b)
CopyText(st, g, out) ==
  LET s == st.sel  bw == st.bw  bh == st.bh IN
  IF s.shape = "rect"
  THEN LET x0 == MinI(s.ax, s.lx)  x1 == MaxI(s.ax, s.lx)  y0 == MinI(s.ay, s.ly)  y1 == MaxI(s.ay, s.ly)
           Row(y) == Run(g, out, bw, bh, y, x0, x1) \o <<10>>
       IN Concat(Row, y0, y1)                                                                    \* CopyRowInclusive
  ELSE LET a == LinesStart(s)  b == LinesEnd(s) IN
       IF a[2] = b[2] THEN Run(g, out, bw, bh, a[2], a[1], b[1])
       ELSE LET Mid(y) == Run(g, out, bw, bh, y, 0, LineLen(g, bw, bh, y)) \o <<10>> IN
            Run(g, out, bw, bh, a[2], a[1], LineLen(g, bw, bh, a[2])) \o <<10>> \o Concat(Mid, a[2] + 1, b[2] - 1) \o Run(g, out, bw, bh, b[2], 0, b[1])

\* ---- operations: each returns [st |-> new state, push |-> an undo step was recorded] --------------------------
Res(st, push) == [st |-> st, push |-> push]
SetSelection(st, s) == IF st.sel = s THEN Res(st, FALSE) ELSE Res([st EXCEPT !.sel = s], TRUE)
ClearSelection(st) == IF SomethingSelected(st) THEN Res([st EXCEPT !.sel = NoSel, !.mask = {}], TRUE) ELSE Res(st, FALSE)
Deselect(st) == IF st.sel # NoSel THEN Res([st EXCEPT !.sel = NoSel], TRUE) ELSE Res(st, FALSE)
Fold(st, cells) == IF st.sel.add = "subtract" THEN st.mask \ cells ELSE st.mask \cup cells
AddSelectionToMask(st) ==
  IF st.sel = NoSel THEN Res(st, FALSE) ELSE Res([st EXCEPT !.mask = Fold(st, SelCells(st.sel, st.mw, st.mh))], TRUE)
InverseSelection(st) ==
  LET m1 == IF st.sel = NoSel THEN st.mask ELSE Fold(st, RectCells(SelRect(st.sel), st.mw, st.mh))        \* InverseUsesRect
      todo == Grid(st.bw, st.bh) \cap Grid(st.mw, st.mh)                                                    \* StaleMaskSize
  IN Res([st EXCEPT !.sel = NoSel, !.mask = (m1 \ todo) \cup (todo \ m1)], TRUE)
\* enumerate_selections with a total predicate want(p, selected): every buffer cell the mask can hold is set to it
Enumerate(st, want(_, _)) ==
  LET todo == Grid(st.bw, st.bh) \cap Grid(st.mw, st.mh)
      m2 == (st.mask \ todo) \cup {p \in todo : want(p, IsSelected(st, p))}
  IN [st |-> [st EXCEPT !.mask = m2], m2 |-> m2]     \* whether a step is recorded depends on the stored representation (not modelled)
SetMaskSize(st) == Res([st EXCEPT !.mw = st.bw, !.mh = st.bh], FALSE)
\* (cells stored beyond the new size stay in the vectors: unreadable, but counted by is_empty / get_rectangle, and readable again
\*  when the size grows back - StaleMaskSize)
=============================================================================
