SPECIFICATION SpecMC
CONSTANTS MaxLayers = 4
          Uni = "viewr"
          Border = 0
          Ops = {"remove", "edit", "below", "insert", "translate", "move"}
          Few = FALSE
          HB <- SmallHB
INVARIANT AllLaws
INVARIANT ShownIsWalk
CHECK_DEADLOCK FALSE
