SPECIFICATION Spec
CONSTANTS Walk = "seq"
          Unis = {}
          AlphaName = "transp"
          Depth = 3
          Few = TRUE
          HB <- SmallHB
INVARIANT Emit
VIEW GenView
CHECK_DEADLOCK FALSE
