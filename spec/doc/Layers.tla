------------------------------- MODULE Layers -------------------------------
(***************************************************************************)
(* Layer compositing of icy_engine (C13): which cell is SHOWN at a position *)
(* of a document that is a stack of layers, and the stacking laws L1..L7.   *)
(*                                                                         *)
(* The property statement (properties.jsonl, C13):                          *)
(*   "The cell shown at a position is determined only by the visible layers *)
(*    covering that position, topmost first: hidden layers, layers that do  *)
(*    not cover the position and invisible cells of alpha layers never      *)
(*    influence it; an opaque layer hides everything beneath it inside its  *)
(*    rectangle; and moving a layer by an offset moves its contribution by  *)
(*    exactly that offset.  Consequently inserting an empty alpha layer     *)
(*    anywhere in the stack, editing a hidden layer, or translating the     *)
(*    whole stack never changes any displayed cell other than by that       *)
(*    translation."                                                         *)
(*                                                                         *)
(* Scope of the model: non-terminal buffer, no overlay layer,               *)
(* default_font_page = 0 on every layer (the statement does not speak about *)
(* them).                                                                   *)
(*                                                                         *)
(* Shown(S, p) is written DECLARATIVELY - as "the topmost layer such that"  *)
(* over sets of layer indices - not as the top-down loop of                 *)
(* Buffer::get_char.  Walk(S, p) further down IS that loop (one clause per  *)
(* return path); MC_Layers checks Shown = Walk for all small stacks, so the *)
(* declarative reading and the operational one are known to agree.          *)
(*                                                                         *)
(* Data.  A cell is <<>> (invisible) or <<ch, fg, bg, attr, font>>; the     *)
(* colour T = -1 is TextAttribute::TRANSPARENT_COLOR (1 << 31 does not fit  *)
(* TLC's integers).  A layer is a record                                    *)
(*   [o |-> <<x, y>>, s |-> <<w, h>>, m |-> 0 (Normal) | 1 (Chars) |        *)
(*    2 (Attributes), a |-> has_alpha_channel, v |-> is_visible,            *)
(*    rows |-> sequence of rows of cells]                                   *)
(* rows may be shorter than h and a row shorter than w: missing = invisible *)
(* (Layer::get_char).  A stack is a sequence of layers, BOTTOM FIRST (as    *)
(* Buffer::layers).  Positions are <<x, y>>; a box is <<x0, y0, x1, y1>>    *)
(* (inclusive).                                                             *)
(***************************************************************************)
EXTENDS Integers, Sequences, FiniteSets

CONSTANT HB  \* half-block table of font page 0: [w, h, bits], bits[ch + 1] = <<set pixels upper half, lower half>>

T == -1
NORMAL == 0
CHARS == 1
ATTRS == 2
DefaultCell == <<32, 7, 0, 0, 0>>        \* AttributedChar::default(): space, light grey on black, font page 0
HALF_TOP == 223
HALF_BOTTOM == 220

MaxOf(set) == CHOOSE m \in set : \A n \in set : n <= m
MinOf(set) == CHOOSE m \in set : \A n \in set : m <= n

\* ---------------------------------------------------------------- geometry
InRect(L, p) == /\ p[1] >= L.o[1] /\ p[1] < L.o[1] + L.s[1]
                /\ p[2] >= L.o[2] /\ p[2] < L.o[2] + L.s[2]
CellAt(L, p) ==                       \* Layer::get_char at the document position p
  LET x == p[1] - L.o[1]
      y == p[2] - L.o[2] IN
  IF ~InRect(L, p) THEN <<>>
  ELSE IF y + 1 > Len(L.rows) THEN <<>>
  ELSE IF x + 1 > Len(L.rows[y + 1]) THEN <<>>
  ELSE L.rows[y + 1][x + 1]
Covering(S, p) == {i \in 1..Len(S) : S[i].v = 1 /\ InRect(S[i], p)}  \* visible layers covering p
BoxPos(box) == {<<x, y>> : x \in box[1]..box[3], y \in box[2]..box[4]}
Plus(p, d) == <<p[1] + d[1], p[2] + d[2]>>
Minus(p, d) == <<p[1] - d[1], p[2] - d[2]>>

\* ---------------------------------------------------------------- cells
Vis(c) == c # <<>>
HasT(c) == c[2] = T \/ c[3] = T                                   \* carries a transparent colour
BlankOnBlack(c) == ~Vis(c) \/ ((c[1] = 32 \/ c[1] = 0) /\ c[3] = 0)   \* AttributedChar::is_transparent
\* "invisible results are compared as invisible only"
CellEq(a, b) == IF Vis(a) /\ Vis(b) THEN a = b ELSE ~Vis(a) /\ ~Vis(b)

\* HalfBlock::from: colour of the upper / lower half of a solid cell: foreground iff more than a quarter of the
\* glyph box is set in that half; background when the font page has no font (only page 0 has one here)
HalfColors(u) ==
  IF u[5] # 0 \/ u[1] < 0 \/ u[1] >= Len(HB.bits) THEN <<u[3], u[3]>>
  ELSE LET b == HB.bits[u[1] + 1]
           q == (HB.w * HB.h) \div 4 IN
       <<IF b[1] > q THEN u[2] ELSE u[3], IF b[2] > q THEN u[2] ELSE u[3]>>
\* Buffer::make_solid_color: a transparent colour of t takes the colour the solid cell u shows in the half that t leaves open
MakeSolid(t, u) ==
  LET hc == HalfColors(u)
      fgsrc == IF t[1] = HALF_TOP THEN hc[1] ELSE hc[2]
      bgsrc == IF t[1] = HALF_BOTTOM THEN hc[1] ELSE hc[2] IN
  <<t[1], IF t[2] = T THEN fgsrc ELSE t[2], IF t[3] = T THEN bgsrc ELSE t[3], t[4], t[5]>>

\* ---------------------------------------------------------------- Shown, declaratively
\* What the stack offers at p: for every layer index, <<>> when the layer is hidden or does not cover p, else <<cell>>.
\* Shown depends on S and p only through this "column" (and the layers' mode and alpha flags).
Column(S, p) == [i \in 1..Len(S) |-> IF S[i].v = 1 /\ InRect(S[i], p) THEN <<CellAt(S[i], p)>> ELSE <<>>]
\* char-only / attribute-only layers above layer i that contribute their half
CharGivers(S, col, i) == {j \in (i + 1)..Len(S) : col[j] # <<>> /\ S[j].m = CHARS /\ ~BlankOnBlack(col[j][1])}
AttrGivers(S, col, i) == {j \in (i + 1)..Len(S) : col[j] # <<>> /\ S[j].m = ATTRS /\ Vis(col[j][1])}
HasGivers(S, col, i) == CharGivers(S, col, i) # {} \/ AttrGivers(S, col, i) # {}
\* the cell c of layer i as modified by the halves contributed above it (the LOWEST giver wins: the code walks
\* top-down and overwrites)
Merged(c, S, col, i) ==
  LET cg == CharGivers(S, col, i)
      ag == AttrGivers(S, col, i)
      a == IF ag = {} THEN c ELSE col[MinOf(ag)][1] IN
  <<IF cg = {} THEN c[1] ELSE col[MinOf(cg)][1][1], a[2], a[3], a[4], a[5]>>

NormalVis(S, col, i) == col[i] # <<>> /\ S[i].m = NORMAL /\ Vis(col[i][1])
Found(S, col, i) == Merged(col[i][1], S, col, i)
Solid(S, col, i) == NormalVis(S, col, i) /\ ~HasT(Found(S, col, i))        \* a visible cell without transparent colour
Stops(S, col, i) == col[i] # <<>> /\ S[i].m = NORMAL /\ (S[i].a = 0 \/ Solid(S, col, i))  \* nothing beneath i can be seen

Shown(S, p) ==
  LET col == Column(S, p)
      stoppers == {i \in 1..Len(S) : Stops(S, col, i)}
      s == IF stoppers = {} THEN 0 ELSE MaxOf(stoppers)          \* the topmost layer that ends the view
      \* visible cells with a transparent colour at or above s: the topmost one is the one that is shown
      pend == {j \in 1..Len(S) : j >= s /\ NormalVis(S, col, j) /\ HasT(Found(S, col, j))}
      tc == Found(S, col, MaxOf(pend)) IN
  IF s = 0 THEN
       IF pend # {} THEN tc                                      \* nothing solid beneath: stays unresolved
       ELSE IF HasGivers(S, col, 0) THEN
              LET m == Merged(DefaultCell, S, col, 0) IN <<m[1], m[2], m[3], m[4], 0>>   \* halves without a carrier
       ELSE <<>>                                                  \* nothing there: invisible
  ELSE IF Solid(S, col, s) THEN
       IF pend # {} THEN MakeSolid(tc, Found(S, col, s)) ELSE Found(S, col, s)
  ELSE \* s is opaque and shows no solid cell of its own: a default cell, modified by the halves above
       IF HasGivers(S, col, s) THEN MakeSolid(Merged(DefaultCell, S, col, s), DefaultCell)
       ELSE IF pend # {} THEN MakeSolid(tc, DefaultCell) ELSE DefaultCell

\* ---------------------------------------------------------------- the same, as the loop of Buffer::get_char
\* st = [ch, at, tc]: character override, attribute override, first transparent cell seen; <<>> = None
WMerge(c, st) == <<IF st.ch = <<>> THEN c[1] ELSE st.ch[1],
                   IF st.at = <<>> THEN c[2] ELSE st.at[1], IF st.at = <<>> THEN c[3] ELSE st.at[2],
                   IF st.at = <<>> THEN c[4] ELSE st.at[3], IF st.at = <<>> THEN c[5] ELSE st.at[4]>>
RECURSIVE WalkFrom(_, _, _, _)
WalkFrom(S, p, i, st) ==
  IF i = 0 THEN
    IF st.tc # <<>> THEN st.tc                                                          \* return path: unresolved
    ELSE IF st.ch # <<>> \/ st.at # <<>> THEN LET m == WMerge(DefaultCell, st) IN <<m[1], m[2], m[3], m[4], 0>>
    ELSE <<>>
  ELSE
    LET L == S[i]
        c == CellAt(L, p) IN
    IF L.v = 0 \/ ~InRect(L, p) THEN WalkFrom(S, p, i - 1, st)
    ELSE IF L.m = CHARS THEN WalkFrom(S, p, i - 1, IF BlankOnBlack(c) THEN st ELSE [st EXCEPT !.ch = <<c[1]>>])
    ELSE IF L.m = ATTRS THEN WalkFrom(S, p, i - 1, IF Vis(c) THEN [st EXCEPT !.at = <<c[2], c[3], c[4], c[5]>>] ELSE st)
    ELSE
      LET f == WMerge(c, st)
          st2 == IF Vis(c) /\ HasT(f) /\ st.tc = <<>> THEN [st EXCEPT !.tc = f] ELSE st IN
      IF Vis(c) /\ ~HasT(f) THEN (IF st.tc # <<>> THEN MakeSolid(st.tc, f) ELSE f)
      ELSE IF L.a = 0 THEN
        IF st.ch # <<>> \/ st.at # <<>> THEN MakeSolid(WMerge(DefaultCell, st), DefaultCell)
        ELSE IF st2.tc # <<>> THEN MakeSolid(st2.tc, DefaultCell) ELSE DefaultCell
      ELSE WalkFrom(S, p, i - 1, st2)
Walk(S, p) == WalkFrom(S, p, Len(S), [ch |-> <<>>, at |-> <<>>, tc |-> <<>>])

\* ---------------------------------------------------------------- stack transformations
RemoveAt(S, k) == SubSeq(S, 1, k - 1) \o SubSeq(S, k + 1, Len(S))
InsertAt(S, k, L) == SubSeq(S, 1, k) \o <<L>> \o SubSeq(S, k + 1, Len(S))   \* k = number of layers below the new one
MoveBy(L, d) == [L EXCEPT !.o = Plus(L.o, d)]
IsEmpty(L) == \A y \in 1..Len(L.rows) : \A x \in 1..Len(L.rows[y]) : L.rows[y][x] = <<>>

\* tr = [op, k, d, layer] (unused fields 0 / <<0,0>> / <<>>).  Pre = the antecedent under which the laws speak about it.
Pre(tr, S) ==
  CASE tr.op = "remove" -> tr.k \in 1..Len(S)
    [] tr.op = "edit" -> tr.k \in 1..Len(S) /\ S[tr.k].v = 0 /\ tr.layer.v = 0     \* a hidden layer becomes another hidden layer
    [] tr.op = "below" -> tr.k \in 1..Len(S) /\ S[tr.k].m = NORMAL /\ S[tr.k].a = 0 /\ S[tr.k].v = 1
    [] tr.op = "insert" -> tr.k \in 0..Len(S) /\ tr.layer.a = 1 /\ IsEmpty(tr.layer)
    [] tr.op = "translate" -> TRUE
    [] tr.op = "move" -> tr.k \in 1..Len(S)
    [] OTHER -> FALSE
Apply(tr, S) ==
  CASE tr.op = "remove" -> RemoveAt(S, tr.k)
    [] tr.op = "edit" -> [S EXCEPT ![tr.k] = tr.layer]
    [] tr.op = "below" -> SubSeq(S, tr.k, Len(S))
    [] tr.op = "insert" -> InsertAt(S, tr.k, tr.layer)
    [] tr.op = "translate" -> [i \in 1..Len(S) |-> MoveBy(S[i], tr.d)]
    [] tr.op = "move" -> [S EXCEPT ![tr.k] = MoveBy(S[tr.k], tr.d)]

\* ---------------------------------------------------------------- the laws
\* Each law is a set of position pairs <<law, pA, pB>>: "what is observed at pA in stack A equals what is observed
\* at pB in stack B = Apply(tr, A)".  The set is computed from the two STACKS (the inputs) only; the observations
\* are parameters, so that the same definition is used on the model (ObsA = Shown(A, _)) and on recorded grids.
OnlyCover(S, k, p) == Covering(S, p) = {k}
Claims(tr, A, B, box) ==
  LET P == BoxPos(box)
      k == tr.k IN
  CASE tr.op = "remove" ->
         \* L1 a hidden layer never influences; L2 a layer that does not cover p; L3 invisible cell of an alpha layer
         {<<"L1", p, p>> : p \in {q \in P : A[k].v = 0}}
         \cup {<<"L2", p, p>> : p \in {q \in P : ~InRect(A[k], q)}}
         \cup {<<"L3", p, p>> : p \in {q \in P : /\ A[k].a = 1 /\ InRect(A[k], q)
                                                  /\ IF A[k].m = CHARS
                                                     THEN LET c == CellAt(A[k], q) IN ~Vis(c) \/ (c[1] = 32 /\ c[3] = 0)
                                                     ELSE ~Vis(CellAt(A[k], q))}}
    [] tr.op = "edit" -> {<<"L1", p, p>> : p \in P}
    [] tr.op = "below" -> {<<"L4", p, p>> : p \in {q \in P : InRect(A[k], q)}}
    [] tr.op = "insert" -> {<<"L5", p, p>> : p \in P}
    [] tr.op = "translate" -> {<<"L6", p, Plus(p, tr.d)>> : p \in {q \in P : Plus(q, tr.d) \in P}}
    [] tr.op = "move" -> {<<"L7", Minus(p, tr.d), p>> : p \in {q \in P : /\ Minus(q, tr.d) \in P
                                                                         /\ OnlyCover(B, k, q)
                                                                         /\ OnlyCover(A, k, Minus(q, tr.d))}}
Fails(tr, A, B, box, ObsA(_), ObsB(_)) == {c \in Claims(tr, A, B, box) : ~CellEq(ObsA(c[2]), ObsB(c[3]))}
LawsHold(tr, A, box) ==
  LET B == Apply(tr, A) IN Fails(tr, A, B, box, LAMBDA p : Shown(A, p), LAMBDA p : Shown(B, p)) = {}

\* bounding box of two stacks plus a border
BBox(S1, S2, border) ==
  LET Ls == {S1[i] : i \in 1..Len(S1)} \cup {S2[i] : i \in 1..Len(S2)} IN
  IF Ls = {} THEN <<0 - border, 0 - border, border, border>>
  ELSE <<MinOf({L.o[1] : L \in Ls}) - border, MinOf({L.o[2] : L \in Ls}) - border,
         MaxOf({L.o[1] + L.s[1] - 1 : L \in Ls}) + border, MaxOf({L.o[2] + L.s[2] - 1 : L \in Ls}) + border>>
=============================================================================
