SPECIFICATION SpecGen
CONSTANTS MaxLayers = 3
          Uni = "viewr"
          Border = 0
          Ops = {"remove", "below", "insert"}
          Few = TRUE
          HB <- SmallHB
INVARIANT Emit
CHECK_DEADLOCK FALSE
