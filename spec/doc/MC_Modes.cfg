SPECIFICATION Spec
INVARIANTS BlinkHasNoIce BlinkIdempotent IceIdempotent ColoursKept RoundTrip IceHasNoBlink NoUseRemains OthersUntouched SlotCount
CHECK_DEADLOCK FALSE
