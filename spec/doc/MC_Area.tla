------------------------------ MODULE MC_Area ------------------------------
(***************************************************************************)
(* R1: exhaustive small-scope check of Area.tla - every grid up to           *)
(* MaxW x MaxH (at most MaxCells cells) over a 3-symbol alphabet x every     *)
(* selection rectangle inside the layer (plus: nothing selected, empty,      *)
(* overhanging, touching and disjoint rectangles) x every operation with     *)
(* every caret position: algebraic laws of the operations as invariants.     *)
(* R2 (Gen_Area.cfg): the same space, exported as (document, operation)      *)
(* cases for the driver harness/src/area.rs.                                 *)
(*                                                                         *)
(* A state is (d, o, r): document before, operation, result of Apply.  The   *)
(* initial states (o.op = "init") are the documents; one step applies one    *)
(* operation.  Laws that fail for the CURRENT engine because of a defect are *)
(* conditioned on the defect's name not being in Quirks: MC_Area.cfg checks  *)
(* the model of the current code (Quirks <- EngineQuirks), MC_Area_ideal.cfg *)
(* the repaired one (Quirks <- NoQuirks), where all of them must hold.       *)
(***************************************************************************)
EXTENDS Area, TLC, Json
CONSTANTS MaxW, MaxH, MinCells, MaxCells, AlphaName, Prot, OpSet

CA == <<65, 7, 0, 0, 0>>          \* 'A'
CS == <<32, 7, 0, 0, 0>>          \* a visible space on black: visible, but blank for justify / center
CF == <<47, 7, 0, 0, 0>>          \* '/'
CB == <<92, 7, 0, 0, 0>>          \* '\'
Alphabet == IF AlphaName = "plain" THEN {Inv, CA, CS} ELSE IF AlphaName = "two" THEN {Inv, CA} ELSE {Inv, CF, CB}
\* abstract mirror maps: an involution on the glyph alphabet (flip_x: the engine always has / <-> \), the same one for flip_y
MX == [k \in {<<0, 47>>, <<0, 92>>} |-> IF k[2] = 47 THEN 92 ELSE 47]
MY == MX

VARIABLES d, o, r
vars == <<d, o, r>>

Sizes == {s \in (1..MaxW) \X (1..MaxH) : s[1] * s[2] <= MaxCells /\ s[1] * s[2] >= MinCells}
SelsIn(w, h) == {<<x, y, sw, sh>> \in (0..(w - 1)) \X (0..(h - 1)) \X (1..w) \X (1..h) : x + sw <= w /\ y + sh <= h}
SelsExtra(w, h) == {<<-1, 0, 2, 1>>, <<w - 1, h - 1, 2, 2>>, <<w + 1, 0, 1, 1>>, <<0, 0, 0, 1>>, <<w, 0, 1, h>>, <<0, -2, w, 1>>}
Flags == IF Prot THEN {<<0, 0>>, <<1, 0>>, <<0, 1>>} ELSE {<<0, 0>>}

Doc(w, h, g, sel, f) ==
  [bw |-> w, bh |-> h, cur |-> 0, sel |-> sel,
   layers |-> <<[w |-> w, h |-> h, ox |-> 0, oy |-> 0, nl |-> h, lock |-> f[1], al |-> f[2], pl |-> 0, g |-> g]>>]
NoOp == [op |-> "init", a |-> <<>>, c |-> Inv]
Op0(n) == [op |-> n, a |-> <<>>, c |-> Inv]
Op1(n, k) == [op |-> n, a |-> <<k>>, c |-> Inv]
Op2(n, x, y) == [op |-> n, a |-> <<x, y>>, c |-> Inv]

Init ==
  /\ \E s \in Sizes : \E g \in [1..s[2] -> [1..s[1] -> Alphabet]] : \E sel \in {<<>>} \cup SelsIn(s[1], s[2]) \cup SelsExtra(s[1], s[2]) :
       \E f \in Flags : d = Doc(s[1], s[2], g, sel, f)
  /\ o = NoOp /\ r = Res("ok", d)

L0 == d.layers[1]
\* OpSet = "area": only the operations without a cell position (for the largest grids), "all": every operation
OpsFor(w, h) ==
  {Op0(n) : n \in AreaOps \cup ScrollOps \cup {"erase_selection", "crop"}}
  \cup {Op1(n, y) : n \in LineOps, y \in 0..(h - 1)}
  \cup {Op1(n, y) : n \in {"delete_row", "insert_row"}, y \in 0..h}
  \cup {Op1(n, x) : n \in {"delete_column", "insert_column"}, x \in 0..w}
  \cup IF OpSet = "area" THEN {} ELSE
  {Op2(n, x, y) : n \in EraseOps, x \in 0..(w - 1), y \in 0..(h - 1)}
  \cup {[op |-> "set_char", a |-> <<x, y>>, c |-> c] : x \in 0..w, y \in 0..(h - 1), c \in Alphabet}
  \cup {[op |-> "swap_char", a |-> <<t[1][1], t[1][2], t[2][1], t[2][2]>>, c |-> Inv] :
          t \in {u \in ((0..(w - 1)) \X (0..(h - 1))) \X ((0..w) \X (0..(h - 1))) : u[2][2] > u[1][2] \/ (u[2][2] = u[1][2] /\ u[2][1] >= u[1][1])}}
OpsOf == OpsFor(L0.w, L0.h)

Ap(dd, oo) == Apply(dd, oo, MX, MY)
Next == o.op = "init" /\ \E oo \in OpsOf : o' = oo /\ d' = d /\ r' = Ap(d, oo)
Spec == Init /\ [][Next]_vars

\* ---------------------------------------------------------------------------------------------- laws
Done == o.op # "init"
Ok == Done /\ r.r = "ok"
L1 == r.d.layers[1]
A0 == AreaOf(d.sel, L0)
Plain == L0.lock = 0 /\ L0.al = 0
Same(La, Lb) == La.w = Lb.w /\ La.h = Lb.h /\ La.g = Lb.g /\ La.ox = Lb.ox /\ La.oy = Lb.oy        \* what get_char shows (nl is storage)
SameDoc(da, db) == da.sel = db.sel /\ Len(da.layers) = Len(db.layers) /\ \A i \in 1..Len(da.layers) : Same(da.layers[i], db.layers[i])
Cells(L) == (0..(L.w - 1)) \X (0..(L.h - 1))
Count(L, c) == Cardinality({p \in Cells(L) : At(L, p[1], p[2]) = c})
Visible(L) == Cardinality({p \in Cells(L) : At(L, p[1], p[2]) # Inv})
Text(s) == IF LeadBlanks(s) = Len(s) THEN <<>> ELSE SubSeq(s, LeadBlanks(s) + 1, Len(s) - TrailBlanks(s))
RowsOf(L, a) == {SubSeq(L.g[y + 1], a.x + 1, a.x + a.w) : y \in a.y..(a.y + a.h - 1)}
SegAt(L, a, y) == SubSeq(L.g[y + 1], a.x + 1, a.x + a.w)

\* the only results are ok and - for the defects listed in Quirks - panic; nl = h here, so only the disjoint selection panics
ResultKinds ==
  Done => /\ r.r \in {"ok", "panic"}
          /\ (r.r = "panic") <=> (Q("neg-area-panic") /\ o.op \in AreaOps \cup LineOps /\ Negative(AreaOf((IF o.op \in LineOps THEN LineSel(d, o.a[1]) ELSE d.sel), L0)))
\* an operation that cannot work (area empty) changes nothing
EmptyAreaNoop == Ok /\ o.op \in AreaOps \cup ScrollOps /\ Empty(A0) => r.d = d

\* flip o flip = id: holds with the glyph alphabet too because MX is an involution and the middle cell is mapped neither time
FlipInvolution == Ok /\ o.op \in {"flip_x", "flip_y"} /\ Plain => Ap(r.d, o).d = d
FlipsCommute == Ok /\ o.op = "flip_x" => Ap(Ap(d, Op0("flip_y")).d, o).d = Ap(r.d, Op0("flip_y")).d
JustifyIdempotent == Ok /\ o.op \in {"justify_left", "justify_right", "justify_line_left", "justify_line_right"} /\ L0.al = 0 => SameDoc(Ap(r.d, o).d, r.d)
CenterIdempotent == Ok /\ o.op = "center" /\ ~Q("center-shift") /\ L0.al = 0 => Ap(r.d, o).d = r.d
\* right = mirror image of left (with glyphs that have a mirror partner not exactly: the middle column of a flip is not mapped)
JustifyDual == Ok /\ o.op = "justify_right" /\ Plain /\ AlphaName # "glyph" => r.d = Ap(Ap(Ap(d, Op0("flip_x")).d, Op0("justify_left")).d, Op0("flip_x")).d
ScrollDual ==
  /\ Ok /\ o.op = "scroll_area_right" /\ Plain /\ AlphaName # "glyph" => r.d = Ap(Ap(Ap(d, Op0("flip_x")).d, Op0("scroll_area_left")).d, Op0("flip_x")).d
  /\ Ok /\ o.op = "scroll_area_down" /\ Plain /\ AlphaName # "glyph" /\ (A0.w < L0.w \/ A0.h = L0.h) => r.d =      \* (!) not for the whole-layer scroll of a full-width area
        Ap(Ap(Ap(d, Op0("flip_y")).d, Op0("scroll_area_up")).d, Op0("flip_y")).d
\* scrolling is a rotation: the opposite direction restores, and w (h) steps are the identity
Opposite(n) == CASE n = "scroll_area_left" -> "scroll_area_right" [] n = "scroll_area_right" -> "scroll_area_left"
                 [] n = "scroll_area_up" -> "scroll_area_down" [] n = "scroll_area_down" -> "scroll_area_up"
ScrollInverse == Ok /\ o.op \in ScrollOps => Ap(r.d, Op0(Opposite(o.op))).d = d
Iter3(dd, oo, n) == IF n <= 0 THEN dd ELSE IF n = 1 THEN Ap(dd, oo).d ELSE IF n = 2 THEN Ap(Ap(dd, oo).d, oo).d ELSE Ap(Ap(Ap(dd, oo).d, oo).d, oo).d
ScrollOrder == Ok /\ o.op \in {"scroll_area_left", "scroll_area_right"} /\ ~Empty(A0) => Iter3(d, o, A0.w) = d
\* insert then delete at the same place = identity (the converse loses the row / column)
InsertDelete ==
  /\ Ok /\ o.op = "insert_row" => SameDoc(Ap(r.d, [o EXCEPT !.op = "delete_row"]).d, d)
  /\ Ok /\ o.op = "insert_column" => SameDoc(Ap(r.d, [o EXCEPT !.op = "delete_column"]).d, d)
RowColShape ==
  /\ Ok /\ o.op = "insert_row" => L1.h = L0.h + 1 /\ L1.w = L0.w /\ (o.a[1] < L1.h => \A x \in 0..(L1.w - 1) : At(L1, x, o.a[1]) = Inv)
  /\ Ok /\ o.op = "insert_column" => L1.w = L0.w + 1 /\ L1.h = L0.h /\ (o.a[1] < L1.w => \A y \in 0..(L1.h - 1) : At(L1, o.a[1], y) = Inv)
  /\ Ok /\ o.op = "delete_row" => L1.h = L0.h - 1 /\ L1.w = L0.w /\ \A p \in Cells(L1) : At(L1, p[1], p[2]) = At(L0, p[1], IF p[2] < o.a[1] THEN p[2] ELSE p[2] + 1)
  /\ Ok /\ o.op = "delete_column" => L1.w = L0.w - 1 /\ L1.h = L0.h /\ \A p \in Cells(L1) : At(L1, p[1], p[2]) = At(L0, IF p[1] < o.a[1] THEN p[1] ELSE p[1] + 1, p[2])
\* erase: idempotent, exactly the selected cells, nothing selected afterwards
EraseLaw ==
  Ok /\ o.op = "erase_selection" /\ d.sel # <<>> =>
    /\ r.d.sel = <<>>
    /\ \A p \in Cells(L0) : At(L1, p[1], p[2]) = IF InArea(A0, p[1], p[2]) /\ L0.lock = 0 THEN Inv ELSE At(L0, p[1], p[2])
    /\ SameDoc(Ap([r.d EXCEPT !.sel = d.sel], o).d, r.d)
EraseRowLaws ==
  /\ Ok /\ o.op = "erase_row" => /\ SameDoc(r.d, Ap(Ap(d, [o EXCEPT !.op = "erase_row_to_start"]).d, [o EXCEPT !.op = "erase_row_to_end"]).d)
                                 /\ SameDoc(r.d, Ap([d EXCEPT !.sel = <<0, o.a[2], L0.w, 1>>], Op0("erase_selection")).d)
  /\ Ok /\ o.op = "erase_row_to_start" => \A p \in Cells(L0) : At(L1, p[1], p[2]) = IF p[2] = o.a[2] /\ p[1] < o.a[1] /\ L0.lock = 0 THEN Inv ELSE At(L0, p[1], p[2])
  /\ Ok /\ o.op = "erase_row_to_end" => \A p \in Cells(L0) : At(L1, p[1], p[2]) = IF p[2] = o.a[2] /\ p[1] >= o.a[1] /\ L0.lock = 0 THEN Inv ELSE At(L0, p[1], p[2])
EraseColumnLaws ==
  /\ Ok /\ o.op \in {"erase_column", "erase_column_to_start", "erase_column_to_end"} /\ Q("erase-column-empty") => Same(L1, L0) /\ r.d.sel = <<>>
  /\ Ok /\ o.op = "erase_column" /\ ~Q("erase-column-empty") =>
       /\ SameDoc(r.d, Ap([d EXCEPT !.sel = <<o.a[1], 0, 1, L0.h>>], Op0("erase_selection")).d)
       /\ SameDoc(r.d, Ap(Ap(d, [o EXCEPT !.op = "erase_column_to_start"]).d, [o EXCEPT !.op = "erase_column_to_end"]).d)
\* frame condition: cells outside of the area (row, column, position) are untouched, the size is kept
Touched(p) ==
  CASE o.op \in AreaOps \cup {"erase_selection"} -> InArea(A0, p[1], p[2])
    [] o.op \in {"scroll_area_left", "scroll_area_right"} -> InArea(A0, p[1], p[2])
    [] o.op \in {"scroll_area_up", "scroll_area_down"} -> InArea(A0, p[1], p[2]) \/ (~Empty(A0) /\ A0.w >= L0.w)    \* (!) full width: whole layer
    [] o.op \in LineOps -> p[2] = o.a[1]
    [] o.op \in {"erase_row", "erase_row_to_start", "erase_row_to_end"} -> p[2] = o.a[2]
    [] o.op \in {"erase_column", "erase_column_to_start", "erase_column_to_end"} -> p[1] = o.a[1]
    [] o.op = "set_char" -> p = <<o.a[1], o.a[2]>>
    [] o.op = "swap_char" -> p = <<o.a[1], o.a[2]>> \/ p = <<o.a[3], o.a[4]>>
    [] OTHER -> TRUE
Frame ==
  Ok /\ o.op \notin RowColOps \cup {"crop"} =>
    /\ L1.w = L0.w /\ L1.h = L0.h /\ L1.ox = L0.ox /\ L1.oy = L0.oy /\ Len(r.d.layers) = 1
    /\ \A p \in Cells(L0) : ~Touched(p) => At(L1, p[1], p[2]) = At(L0, p[1], p[2])
\* the selection survives everything except the operations that end with "select nothing"
SelectionLaw ==
  Ok => r.d.sel = IF o.op \in LineOps \cup EraseOps \cup {"erase_selection"} THEN <<>> ELSE d.sel
\* protection: a locked / hidden layer is changed by no operation that writes cell by cell, an alpha-locked one keeps its invisible cells;
\* (!) scrolling and row / column operations edit the storage directly and ignore the lock
Protection ==
  Ok /\ o.op \in AreaOps \cup LineOps \cup EraseOps \cup {"erase_selection", "set_char", "swap_char"} =>
    /\ L0.lock = 1 => L1.g = L0.g
    /\ L0.al = 1 => \A p \in Cells(L0) : At(L0, p[1], p[2]) = Inv => At(L1, p[1], p[2]) = Inv
\* crop yields exactly the selection
CropLaw ==
  Ok /\ o.op = "crop" =>
    IF d.sel = <<>> THEN r.d = d
    ELSE LET R == SelRect(d.sel)  n == Intersect(LayerRect(L0), R) IN
         /\ r.d.bw = R.w /\ r.d.bh = R.h /\ r.d.sel = d.sel
         /\ IF Empty(n) THEN r.d.layers = <<>>
            ELSE /\ Len(r.d.layers) = 1 /\ L1.w = n.w /\ L1.h = n.h /\ L1.ox = n.x - R.x /\ L1.oy = n.y - R.y
                 /\ (Plain \/ ~Q("crop-protected-empty")) => \A p \in Cells(L1) : At(L1, p[1], p[2]) = At(L0, p[1] + n.x, p[2] + n.y)
\* what is preserved: flip and scroll keep the multiset of cells (up to the mirror map), justify and center keep the text of every row
BagKept ==
  Ok /\ o.op \in {"flip_x", "flip_y"} \cup ScrollOps /\ Plain =>
    /\ Visible(L1) = Visible(L0)
    /\ AlphaName # "glyph" => \A c \in Alphabet : Count(L1, c) = Count(L0, c)
TextKept ==
  Ok /\ o.op \in {"justify_left", "justify_right", "center"} /\ Plain /\ ~Empty(A0) =>
    \A y \in A0.y..(A0.y + A0.h - 1) :
      LET s0 == SegAt(L0, A0, y)  s1 == SegAt(L1, A0, y) IN
      (o.op = "center" /\ Q("center-shift") /\ LeadBlanks(s0) + TrailBlanks(s0) = 0) \/ Text(s1) = Text(s0)     \* (!) C08-E1: a full row is lost
JustifiedShape ==
  Ok /\ o.op \in {"justify_left", "justify_right", "center"} /\ Plain /\ ~Empty(A0) =>
    \A y \in A0.y..(A0.y + A0.h - 1) :
      LET s0 == SegAt(L0, A0, y)  s1 == SegAt(L1, A0, y)  k == LeadBlanks(s0) + TrailBlanks(s0) IN
      IF LeadBlanks(s0) = Len(s0) THEN s1 = s0
      ELSE CASE o.op = "justify_left" -> LeadBlanks(s1) = 0 /\ \A i \in (Len(s1) - LeadBlanks(s0) + 1)..Len(s1) : s1[i] = Inv
             [] o.op = "justify_right" -> TrailBlanks(s1) = 0 /\ \A i \in 1..TrailBlanks(s0) : s1[i] = Inv
             [] o.op = "center" -> IF ~Q("center-shift") THEN LeadBlanks(s1) = k \div 2 /\ TrailBlanks(s1) = k - k \div 2      \* centred, odd cell on the right
                                   ELSE k >= 1 => LeadBlanks(s1) = (k + 1) \div 2 - 1                                         \* (!) C08-E1
\* set_char / swap_char
CharLaws ==
  /\ Ok /\ o.op = "set_char" /\ Plain /\ o.a[1] < L0.w => At(L1, o.a[1], o.a[2]) = o.c
  /\ Ok /\ o.op = "swap_char" /\ Plain /\ o.a[3] < L0.w => At(L1, o.a[1], o.a[2]) = At(L0, o.a[3], o.a[4]) /\ At(L1, o.a[3], o.a[4]) = At(L0, o.a[1], o.a[2])
  /\ Ok /\ o.op = "swap_char" /\ Plain /\ o.a[3] < L0.w => SameDoc(Ap(r.d, o).d, d)

\* ---------------------------------------------------------------------------------------------- generator (R2)
\* Gen_Area.cfg: every (document, operation) pair is an initial state of GenSpec, exported once per class of GenView:
\* the visible space CS differs from the letter CA only in being blank for justify / center, so for every other operation the
\* documents are exported with CS read as CA (one representative per class).
JFamily == {"justify_left", "justify_right", "center"} \cup LineOps
Coarse(dd) == [dd EXCEPT !.layers[1].g = [j \in 1..Len(@) |-> [i \in 1..Len(@[j]) |-> IF @[j][i] = CS THEN CA ELSE @[j][i]]]]
GenInit ==
  \E s \in Sizes : \E g \in [1..s[2] -> [1..s[1] -> Alphabet]] : \E sel \in {<<>>} \cup SelsIn(s[1], s[2]) \cup SelsExtra(s[1], s[2]) :
    \E oo \in OpsFor(s[1], s[2]) :
      /\ d = Doc(s[1], s[2], g, sel, <<0, 0>>) /\ o = oo /\ r = Ap(d, oo)
GenSpec == GenInit /\ [][FALSE]_vars
GenView == <<IF o.op \in JFamily THEN d ELSE Coarse(d), o>>
Emit == PrintT(<<"WITNESS", ToJson([d |-> d, o |-> o])>>)
=============================================================================
