---------------------------- MODULE MC_LayerOps ----------------------------
(***************************************************************************)
(* R1 for LayerOps.tla.  Two ways to walk the same model:                   *)
(*   Walk = "pairs": every document of a small universe (Unis: "flags" =    *)
(*          1- and 2-layer documents, every flag / role / mode variant of   *)
(*          one layer; "geo" = 2-layer documents, every size up to 2 x 2,   *)
(*          offsets -1..1, opaque and alpha layers; "three" = 3-layer       *)
(*          documents over a tiny layer universe), the current-layer field  *)
(*          on every layer and PAST the stack, x every public call with     *)
(*          in-range, boundary (len, usize::MAX) and out-of-range           *)
(*          arguments: one step each;                                       *)
(*   Walk = "seq":   call sequences (public calls, undo, redo) of length    *)
(*          <= Depth from a few seed documents (history hidden by VIEW).    *)
(* A state is (s0, o, res): editor state before, call, result of Call.      *)
(* The laws are invariants over that triple, so both walks check the same   *)
(* ones.  R2 (Gen_LayerOps.cfg): the "seq" walk, one call sequence exported *)
(* per class of GenView.                                                    *)
(***************************************************************************)
EXTENDS LayerOps, TLC, Json
CONSTANTS Walk, Unis, AlphaName, Depth, Few

\* abstract tables: a rotation map that is one 4-cycle on the letters; half blocks for the two glyphs that have them
RM == [c \in {65, 66, 67, 68} |-> IF c = 68 THEN 65 ELSE c + 1]
SmallHB == [w |-> 8, h |-> 16,
            bits |-> [c \in 1..256 |-> CASE c - 1 = 219 -> <<64, 64>> [] c - 1 = 220 -> <<0, 64>> [] c - 1 = 223 -> <<64, 0>>
                                         [] c - 1 \in 65..68 -> <<40, 10>> [] OTHER -> <<0, 0>>]]

CA == <<65, 7, 0, 0, 0>>          \* 'A'
CS == <<32, 7, 0, 0, 0>>          \* a visible space on black: what make_layer_transparent removes
CT == <<223, 4, T, 0, 0>>         \* upper half block, transparent background
Special == IF AlphaName = "plain" THEN CS ELSE CT
Alphabet == {Inv, CA, Special}

VARIABLES s0, o, res, hist, seed
vars == <<s0, o, res, hist, seed>>

\* ---------------------------------------------------------------------------------------------- documents
Given == [b |-> "L", n |-> 0]
Plain(w, h, ox, oy, g) == [NewLayer(w, h) EXCEPT !.ox = ox, !.oy = oy, !.g = Norm(g), !.title = Given]
Variants(L) ==
  {L, [L EXCEPT !.vis = 0], [L EXCEPT !.lock = 1], [L EXCEPT !.alpha = 0], [L EXCEPT !.al = 1], [L EXCEPT !.pl = 1],
   [L EXCEPT !.role = "preview"], [L EXCEPT !.role = "pimage"], [L EXCEPT !.mode = 1], [L EXCEPT !.pv = <<0, 1>>]}
Doc(layers, cur) == [bw |-> 2, bh |-> 2, cur |-> cur, layers |-> layers]

\* "flags": shapes 1 x 1 and 2 x 1 at two offsets; one layer of the document carries a variant
Shapes1 == {<<1, 1, <<<<c>>>>>> : c \in Alphabet} \cup {<<2, 1, <<<<CA, CA>>>>>>, <<2, 1, <<<<Inv, CA>>>>>>, <<2, 1, <<<<Special, CA>>>>>>}
PlainF == {Plain(sh[1], sh[2], ox, 0, sh[3]) : sh \in Shapes1, ox \in {0, 1}}
VarF == UNION {Variants(L) : L \in PlainF}
DocsFlags ==
  {Doc(<<L>>, c) : L \in VarF, c \in 0..1}
  \cup {Doc(<<A, B>>, c) : A \in VarF, B \in PlainF, c \in 0..2}
  \cup {Doc(<<A, B>>, c) : A \in PlainF, B \in VarF, c \in 0..2}
\* "geo": every size up to 2 x 2, content patterns full / hole at the end / special cell first; the lower layer at the origin
Pattern(w, h, pat) == [y \in 1..h |-> [x \in 1..w |-> IF pat = 1 /\ x = w /\ y = h THEN Inv ELSE IF pat = 2 /\ x = 1 /\ y = 1 THEN Special ELSE CA]]
GeoL(offs) == {[Plain(w, h, of[1], of[2], Pattern(w, h, pat)) EXCEPT !.alpha = a] : w \in 1..2, h \in 1..2, pat \in 0..2, of \in offs, a \in 0..1}
DocsGeo == {Doc(<<A, B>>, 1) : A \in GeoL({<<0, 0>>}), B \in GeoL({<<x, y>> : x \in -1..1, y \in 0..1})}
\* "three": 1 x 1 layers at the origin
Tiny == {[Plain(1, 1, 0, 0, <<<<c>>>>) EXCEPT !.vis = v, !.role = ro] : c \in {CA, Special}, v \in 0..1, ro \in {"normal", "preview"}}
DocsThree == {Doc(<<A, B, C>>, c) : A \in Tiny, B \in Tiny, C \in Tiny, c \in {0, 2, 3}}
Docs == (IF "flags" \in Unis THEN DocsFlags ELSE {}) \cup (IF "geo" \in Unis THEN DocsGeo ELSE {}) \cup (IF "three" \in Unis THEN DocsThree ELSE {})
\* seeds of the "seq" walk
Seeds ==
  {Doc(<<[Plain(2, 1, 0, 0, <<<<CA, Special>>>>) EXCEPT !.alpha = 0], [Plain(1, 1, 1, 0, <<<<CA>>>>) EXCEPT !.role = "preview", !.title = TitlePasted]>>, 1),
   Doc(<<Plain(2, 2, 0, 0, <<<<CA, Inv>>, <<Special, CA>>>>)>>, 0),
   Doc(<<Plain(1, 1, 0, 0, <<<<CA>>>>), [Plain(2, 1, -1, 0, <<<<Special, CA>>>>) EXCEPT !.vis = 0], [Plain(1, 2, 0, 0, <<<<CA>>, <<CA>>>>) EXCEPT !.lock = 1, !.pl = 1]>>, 2)}

\* ---------------------------------------------------------------------------------------------- calls
NoOp == [op |-> "init", a |-> <<>>, p |-> <<>>]
Op0(n) == [op |-> n, a |-> <<>>, p |-> <<>>]
Op1(n, k) == [op |-> n, a |-> <<k>>, p |-> <<>>]
OpMove(x, y) == [op |-> "move_layer", a |-> <<x, y>>, p |-> <<>>]
OpSize(k, w, h) == [op |-> "set_layer_size", a |-> <<k, w, h>>, p |-> <<>>]
OpProps(k, p) == [op |-> "update_layer_properties", a |-> <<k>>, p |-> p]
SomeProps == PropsOf(NewLayer(1, 1))
PropsFor(L) == {PropsOf(L), [PropsOf(L) EXCEPT !.vis = 0, !.ox = 1], [PropsOf(L) EXCEPT !.title = [b |-> "P", n |-> 0], !.col = <<1, 2, 3>>, !.lock = 1, !.mode = 2]}
OpsFor(d) ==
  LET n == NL(d)
      idx == IF Few THEN {0, n - 1, n} \cap (0..n) ELSE (0..n) \cup {UMax} IN
  {Op1(nm, k) : nm \in IndexOps \cup {"set_current_layer"}, k \in idx}
  \cup {Op0(nm) : nm \in CurrentOps}
  \cup {OpMove(0, 0), OpMove(1, -1)}
  \cup {OpSize(k, sz[1], sz[2]) : k \in 0..(n - 1), sz \in IF Few THEN {<<1, 1>>, <<-1, 2>>} ELSE {<<1, 1>>, <<2, 2>>, <<3, 1>>, <<0, 1>>, <<-1, 2>>}}
  \cup {OpSize(k, Lay(d, k).w, Lay(d, k).h) : k \in 0..(n - 1)}
  \cup {OpSize(n, 1, 1)}
  \cup UNION {{OpProps(k, p) : p \in PropsFor(Lay(d, k))} : k \in {j \in 0..(n - 1) : ~Few \/ j = n - 1}}
  \cup {OpProps(n, SomeProps)}

Ap(s, oo) == Call(s, oo, RM)
Init ==
  /\ \E d \in (IF Walk = "pairs" THEN Docs ELSE Seeds) : s0 = State(d) /\ seed = d
  /\ o = NoOp /\ res = CallRes("ok", s0, 0) /\ hist = <<>>
Next ==
  IF Walk = "pairs"
  THEN o.op = "init" /\ \E oo \in OpsFor(s0.d) : o' = oo /\ res' = Ap(s0, oo) /\ UNCHANGED <<s0, hist, seed>>
  ELSE /\ Len(hist) < Depth /\ res.r # "panic"
       /\ \E oo \in OpsFor(res.s.d) \cup {Op0("undo"), Op0("redo")} :
            o' = oo /\ s0' = res.s /\ res' = Ap(res.s, oo) /\ hist' = Append(hist, oo) /\ UNCHANGED seed
Spec == Init /\ [][Next]_vars
View == <<s0, o, res, seed, Len(hist)>>

\* ---------------------------------------------------------------------------------------------- laws
D0 == s0.d
D1 == res.s.d
N0 == NL(D0)
N1 == NL(D1)
Done == o.op # "init"
IsCall == Done /\ o.op \notin {"undo", "redo"}
Ok == IsCall /\ res.r = "ok"
K == o.a[1]
UndoOp == Op0("undo")
RedoOp == Op0("redo")
Box == (-2..3) \X (-2..3)
SameShown(da, db) == \A p \in Box : Shown(da, p) = Shown(db, p)
NegSize(L) == L.w < 0 \/ L.h < 0
Merges == Ok /\ o.op \in {"merge_layer_down", "anchor_layer"} /\ res.push = 1
MergeIx == IF o.op = "anchor_layer" THEN CurIx(D0) ELSE K

\* which calls fail how: the panics are exactly the named ones; a failing call changes nothing but (MoveErrClearsPreview)
ResultKinds ==
  IsCall =>
    /\ res.r \in {"ok", "err", "panic"}
    /\ (res.r = "panic") <=>
         \/ o.op \in {"add_new_layer", "raise_layer"} /\ K = UMax
         \/ o.op = "update_layer_properties" /\ Past(K, N0)
         \/ o.op = "rotate_layer" /\ D0.cur < N0 /\ NegSize(Lay(D0, D0.cur))
         \/ o.op = "make_layer_transparent" /\ N0 > 0 /\ NegSize(CurL(D0))
    /\ res.r # "ok" => D1 = D0 \/ (o.op = "move_layer" /\ D0.cur >= N0 /\ D1 = WithLay(D0, CurIx(D0), [CurL(D0) EXCEPT !.pv = <<>>]))
ErrKinds ==
  IsCall /\ res.r = "err" =>
    \/ o.op \in IndexOps \ {"add_new_layer", "raise_layer", "merge_layer_down"} /\ Past(K, N0)
    \/ o.op = "raise_layer" /\ K + 1 >= N0
    \/ o.op = "merge_layer_down" /\ (K = 0 \/ Past(K, N0))
    \/ o.op \in {"set_layer_size"} /\ Past(K, N0)
    \/ o.op \in {"anchor_layer", "add_floating_layer", "make_layer_transparent"} /\ N0 = 0
    \/ o.op = "anchor_layer" /\ CurIx(D0) = 0
    \/ o.op \in {"rotate_layer", "move_layer"} /\ D0.cur >= N0
\* stack length arithmetic
LenArith ==
  IsCall => N1 = N0 + (IF Ok /\ o.op \in {"add_new_layer", "duplicate_layer"} THEN 1 ELSE IF (Ok /\ o.op = "remove_layer") \/ Merges THEN -1 ELSE 0)
\* undo steps: 0 or 1; exactly one for every ok that changes a layer; every recorded step discards the redo history;
\* a call that records nothing leaves it alone unless it opened an atomic group (AtomicClearsRedo)
PushLaw ==
  IsCall =>
    /\ res.push \in {0, 1} /\ Len(res.s.us) = Len(s0.us) + res.push /\ SubSeq(res.s.us, 1, Len(s0.us)) = s0.us
    /\ (res.r # "ok" => res.push = 0)
    /\ (Ok /\ D1.layers # D0.layers => res.push = 1)
    /\ (res.push = 1 => res.s.rs = <<>>)
    /\ (res.push = 0 => res.s.rs = s0.rs \/ (res.s.rs = <<>> /\ (o.op = "make_layer_transparent" \/ (o.op = "anchor_layer" /\ N0 > 0 /\ CurL(D0).role = "preview"))))
\* ok calls that record nothing do nothing (LowerBottomIsOk, MergeChecksCurrentRole, anchor of a layer that is no paste preview, move on an empty stack)
SilentOk == Ok /\ res.push = 0 => IF o.op = "set_current_layer" THEN D1 = [D0 EXCEPT !.cur = IF K = UMax THEN LastIx(D0) ELSE MinI(K, LastIx(D0))] ELSE D1 = D0
\* the current-layer field: at most one past the stack, and only clear_layer puts it there (ClearLayerMovesCurrent)
CurBound == D0.cur <= N0 => D1.cur <= N1 /\ (D1.cur = N1 /\ N1 > 0 /\ D0.cur < N0 => o.op = "clear_layer" /\ K = N0 - 1)
CurLaw ==
  Ok /\ res.push = 1 =>
    D1.cur = CASE o.op = "add_new_layer" -> MinI(K + 1, N0)
               [] o.op = "raise_layer" -> K + 1
               [] o.op = "lower_layer" -> K - 1
               [] o.op \in {"duplicate_layer", "clear_layer"} -> K + 1
               [] o.op = "remove_layer" -> MinI(D0.cur, MaxI(N0 - 2, 0))                     \* RemoveKeepsIndex
               [] o.op \in {"merge_layer_down", "anchor_layer"} -> MergeIx - 1
               [] OTHER -> D0.cur
\* frame conditions: the buffer size never changes; no call touches a layer other than the ones it names
Named ==
  CASE o.op \in {"toggle_layer_visibility", "clear_layer", "set_layer_size", "update_layer_properties"} -> {K}
    [] o.op \in {"raise_layer"} -> {K, K + 1}
    [] o.op \in {"lower_layer"} -> {K, K - 1}
    [] o.op \in {"add_floating_layer", "move_layer", "make_layer_transparent"} -> {CurIx(D0)}
    [] o.op = "rotate_layer" -> {D0.cur}
    [] OTHER -> {}
Frame ==
  Ok =>
    /\ D1.bw = D0.bw /\ D1.bh = D0.bh
    /\ CASE o.op = "add_new_layer" -> D1.layers = InsertAt(D0.layers, MinI(K + 1, N0), NewLayer(D0.bw, D0.bh))
         [] o.op = "duplicate_layer" -> D1.layers = InsertAt(D0.layers, K + 1, [Lay(D0, K) EXCEPT !.title = CopyOf(@)])
         [] o.op = "remove_layer" -> D1.layers = RemoveAt(D0.layers, K)
         [] Merges -> SubSeq(D1.layers, 1, MergeIx - 1) = SubSeq(D0.layers, 1, MergeIx - 1) /\ SubSeq(D1.layers, MergeIx + 1, N1) = SubSeq(D0.layers, MergeIx + 2, N0)
         [] OTHER -> N1 = N0 /\ \A i \in 0..(N0 - 1) : i \notin Named => Lay(D1, i) = Lay(D0, i)
\* ... and of the layer it names only what it is about
Only ==
  /\ Ok /\ o.op = "toggle_layer_visibility" => Lay(D1, K) = [Lay(D0, K) EXCEPT !.vis = 1 - @]
  /\ Ok /\ o.op = "clear_layer" => Lay(D1, K) = [Lay(D0, K) EXCEPT !.g = <<>>]                                   \* EditsIgnoreLocks
  /\ Ok /\ o.op = "set_layer_size" => Lay(D1, K) = [Lay(D0, K) EXCEPT !.w = o.a[2], !.h = o.a[3]]                \* SizeKeepsStorage
  /\ Ok /\ o.op = "update_layer_properties" => Lay(D1, K) = SetProps(Lay(D0, K), o.p) /\ PropsOf(Lay(D1, K)) = o.p
  /\ Ok /\ o.op \in {"raise_layer", "lower_layer"} /\ res.push = 1 =>
       LET j == IF o.op = "raise_layer" THEN K + 1 ELSE K - 1 IN Lay(D1, K) = Lay(D0, j) /\ Lay(D1, j) = Lay(D0, K)
  /\ Ok /\ o.op = "add_floating_layer" =>
       Lay(D1, CurIx(D0)) = [CurL(D0) EXCEPT !.role = IF @ = "pimage" THEN "image" ELSE "normal", !.title = TitleNew]
  /\ Ok /\ o.op = "move_layer" /\ N0 > 0 =>                                                                       \* move changes nothing but the offset
       LET L == CurL(D0)  M == Lay(D1, CurIx(D0)) IN
       /\ [M EXCEPT !.ox = L.ox, !.oy = L.oy, !.pv = L.pv] = L
       /\ M.pv = <<>> /\ Off(M) = IF L.pl = 1 THEN <<L.ox, L.oy>> ELSE <<o.a[1], o.a[2]>>                          \* MoveLockedStillPushes
  /\ Ok /\ o.op = "make_layer_transparent" =>
       LET L == CurL(D0)  M == Lay(D1, CurIx(D0)) IN
       /\ [M EXCEPT !.g = L.g] = L
       /\ \A x \in 0..(L.w - 1), y \in 0..(L.h - 1) :
            At(M, x, y) = IF IsTransp(At(L, x, y)) /\ Writable(L) THEN Inv ELSE At(L, x, y)                       \* only this call honours the lock
  /\ Ok /\ o.op = "rotate_layer" =>
       LET L == Lay(D0, D0.cur)  M == Lay(D1, D0.cur) IN
       /\ [M EXCEPT !.w = L.w, !.h = L.h, !.g = L.g] = L /\ M.w = L.h /\ M.h = L.w /\ StoredInside(M)
       /\ \A x \in 0..(L.w - 1), y \in 0..(L.h - 1) : At(M, L.h - 1 - y, x) = RotC(RM, At(L, x, y))

\* inverse pairs
RaiseLower ==
  Ok /\ o.op = "raise_layer" => LET b == Ap(res.s, Op1("lower_layer", K + 1)) IN b.r = "ok" /\ b.s.d.layers = D0.layers /\ b.s.d.cur = K
LowerRaise ==
  Ok /\ o.op = "lower_layer" /\ K > 0 => LET b == Ap(res.s, Op1("raise_layer", K - 1)) IN b.r = "ok" /\ b.s.d.layers = D0.layers /\ b.s.d.cur = K
DuplicateRemove ==
  Ok /\ o.op = "duplicate_layer" => LET b == Ap(res.s, Op1("remove_layer", K + 1)) IN b.r = "ok" /\ b.s.d.layers = D0.layers
AddRemove ==
  Ok /\ o.op = "add_new_layer" => LET b == Ap(res.s, Op1("remove_layer", D1.cur)) IN b.r = "ok" /\ b.s.d.layers = D0.layers
ToggleTwice == Ok /\ o.op = "toggle_layer_visibility" => Ap(res.s, o).s.d = D0
SizeSame == Ok /\ o.op = "set_layer_size" /\ <<o.a[2], o.a[3]>> = <<Lay(D0, K).w, Lay(D0, K).h>> => D1 = D0
SizeBack == Ok /\ o.op = "set_layer_size" => Ap(res.s, OpSize(K, Lay(D0, K).w, Lay(D0, K).h)).s.d = D0              \* SizeKeepsStorage
PropsSame == Ok /\ o.op = "update_layer_properties" /\ o.p = PropsOf(Lay(D0, K)) => D1 = D0
PropsBack == Ok /\ o.op = "update_layer_properties" => Ap(res.s, OpProps(K, PropsOf(Lay(D0, K)))).s.d = D0
TransparentIdempotent == Ok /\ o.op = "make_layer_transparent" => Ap(res.s, o).s.d = D1
Rotate4 ==
  Ok /\ o.op = "rotate_layer" /\ StoredInside(Lay(D0, D0.cur)) => Ap(Ap(Ap(res.s, o).s, o).s, o).s.d = D0
AnchorIsMerge ==
  IsCall /\ o.op = "anchor_layer" /\ N0 > 0 /\ CurL(D0).role = "preview" =>
    LET m == Ap(s0, Op1("merge_layer_down", CurIx(D0))) IN res.r = m.r /\ D1 = m.s.d /\ res.push = m.push

\* what is shown
AddKeepsShown == Ok /\ o.op = "add_new_layer" => SameShown(D1, D0)
SizeSameKeepsShown == Ok /\ o.op = "set_layer_size" /\ <<o.a[2], o.a[3]>> = <<Lay(D0, K).w, Lay(D0, K).h>> => SameShown(D1, D0)
HiddenEditsKeepShown ==
  Ok /\ ((o.op \in {"clear_layer", "set_layer_size", "remove_layer"} /\ Lay(D0, K).vis = 0) \/ (o.op = "rotate_layer" /\ Lay(D0, D0.cur).vis = 0)) => SameShown(D1, D0)
\* merge_layer_down keeps the picture exactly when ... (the side conditions were found with TLC, each one is needed)
MergeCond(B, C) == <<
  B.vis = 1 /\ C.vis = 1,                        \* 1 MergeIgnoresUpperFlags: a hidden upper layer becomes visible; a hidden lower layer loses everything
  B.lock = 0 /\ ~AlphaLocked(B),                 \* 2 MergeThroughBaseFlags: every write into the clone of a protected lower layer is refused
  B.pl = 0,                                      \* 3 MergeThroughBaseFlags: a position-locked lower layer does not move to the union's corner
  B.mode = 0 /\ C.mode = 0,                      \* 4 char-only / attribute-only layers are merged like normal ones
  C.alpha = 1,                                   \* 5 an opaque upper layer shows a default cell where it has none, the merged layer the lower cell
  B.alpha = 1 \/ (Off(C)[1] >= Off(B)[1] /\ Off(C)[2] >= Off(B)[2] /\ Off(C)[1] + C.w <= Off(B)[1] + B.w /\ Off(C)[2] + C.h <= Off(B)[2] + B.h)
                                                 \* 6 an opaque lower layer grows to the union: the upper layer must not stick out
  >>
MergeSide(B, C) == \A i \in 1..6 : MergeCond(B, C)[i]
\* probes: the law WITHOUT its i-th side condition (Drop is 0 in every registered cfg; each i in 1..6 makes TLC find a counterexample)
MergeSideBut(B, C, i) == \A j \in (1..6) \ {i} : MergeCond(B, C)[j]
MergeKeepsShown ==
  Merges /\ MergeSide(Lay(D0, MergeIx - 1), Lay(D0, MergeIx)) => SameShown(D1, D0)
MergeKeepsShownBut(i) == Merges /\ MergeSideBut(Lay(D0, MergeIx - 1), Lay(D0, MergeIx), i) => SameShown(D1, D0)
Probe1 == MergeKeepsShownBut(1)
Probe2 == MergeKeepsShownBut(2)
Probe3 == MergeKeepsShownBut(3)
Probe4 == MergeKeepsShownBut(4)
Probe5 == MergeKeepsShownBut(5)
Probe6 == MergeKeepsShownBut(6)
MergeRect ==
  Merges /\ Lay(D0, MergeIx - 1).pl = 0 =>
    LET B == Lay(D0, MergeIx - 1)  C == Lay(D0, MergeIx)  M == Lay(D1, MergeIx - 1) IN
    /\ M.ox = MinI(Off(B)[1], Off(C)[1]) /\ M.oy = MinI(Off(B)[2], Off(C)[2]) /\ M.pv = <<>>
    /\ M.ox + M.w = MaxI(Off(B)[1] + B.w, Off(C)[1] + C.w) /\ M.oy + M.h = MaxI(Off(B)[2] + B.h, Off(C)[2] + C.h)
    /\ [M EXCEPT !.ox = B.ox, !.oy = B.oy, !.pv = B.pv, !.w = B.w, !.h = B.h, !.g = B.g] = B          \* everything else is the lower layer's
    /\ StoredInside(M)

\* undo / redo of the step a call recorded
UndoRestores ==
  Ok /\ res.push = 1 =>
    LET u == Ap(res.s, UndoOp) IN
    IF FALSE THEN TRUE                       \* (TransparentUndoFails was an exception here until the engine was repaired: /repo 464c2b3)
    ELSE /\ u.r = "ok" /\ u.s.us = s0.us /\ Len(u.s.rs) = 1
         /\ IF o.op = "add_floating_layer"                                                                             \* FloatingUndoAssumesPaste
            THEN u.s.d.layers = [D0.layers EXCEPT ![CurIx(D0) + 1] = [@ EXCEPT !.role = IF @ \in {"pimage", "image"} THEN "pimage" ELSE "preview", !.title = TitlePasted]]
            ELSE IF o.op = "move_layer" THEN u.s.d.layers = [D0.layers EXCEPT ![CurIx(D0) + 1] = [@ EXCEPT !.pv = <<>>]]  \* the preview offset is gone
            ELSE u.s.d.layers = D0.layers
         /\ u.s.d.cur = CASE o.op \in {"add_new_layer", "duplicate_layer"} -> MinI(D1.cur, MaxI(N0 - 1, 0))          \* UndoKeepsCurrent
                          [] Merges -> MergeIx
                          [] OTHER -> D1.cur
RedoRestores ==
  Ok /\ res.push = 1 /\ ~(o.op = "make_layer_transparent" /\ D0.cur >= N0) =>
    LET w == Ap(Ap(res.s, UndoOp).s, RedoOp) IN w.r = "ok" /\ w.s.d.layers = D1.layers /\ w.s.us = res.s.us /\ w.s.rs = <<>>
\* (seq walk) a step never panics while it is undone / replayed in the order the editor allows
UndoRedoNoPanic == o.op \in {"undo", "redo"} => res.r # "panic"
UndoRedoStacks ==
  o.op \in {"undo", "redo"} /\ res.r # "panic" =>
    /\ Len(res.s.us) + Len(res.s.rs) = Len(s0.us) + Len(s0.rs)
    /\ (o.op = "undo" => Len(res.s.us) = MaxI(Len(s0.us) - 1, 0)) /\ (o.op = "redo" => Len(res.s.rs) = MaxI(Len(s0.rs) - 1, 0))
    /\ N1 \in {N0 - 1, N0, N0 + 1}

\* ---------------------------------------------------------------------------------------------- generator (R2)
LayerShape(L) == <<L.w < 0 \/ L.h < 0, L.w * L.h, L.vis, L.lock, L.pl, L.role, L.g = <<>>, StoredInside(L)>>
DocShape(d) == <<d.cur, [i \in 1..NL(d) |-> LayerShape(d.layers[i])]>>
RECURSIVE Kinds(_)
KindOf(rec) == IF rec.k = "atomic" THEN <<"atomic", Kinds(rec.ops)>> ELSE rec.k
Kinds(q) == [i \in 1..Len(q) |-> KindOf(q[i])]
Top(q) == IF q = <<>> THEN <<>> ELSE KindOf(q[Len(q)])
GenView == <<seed, DocShape(res.s.d), Len(res.s.us), Top(res.s.us), Len(res.s.rs), Top(res.s.rs), o.op, res.r>>
Emit == hist = <<>> \/ PrintT(<<"WITNESS", ToJson([d |-> seed, ops |-> hist])>>)
=============================================================================
