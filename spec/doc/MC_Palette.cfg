SPECIFICATION Spec
CONSTANTS MaxOps = 4
          MaxLen = 3
INVARIANT InsertProperty
INVARIANT VgaIdempotent
CONSTRAINT Bounded
VIEW ViewMC
CHECK_DEADLOCK FALSE
