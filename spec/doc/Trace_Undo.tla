----------------------------- MODULE Trace_Undo -----------------------------
(***************************************************************************)
(* Validates recorded executions of the real icy_engine::editor::EditState  *)
(* against Undo.tla (C08).  Events (harness/src/undo.rs):                   *)
(*   reset {seed, doc, x, ul, cr}          a fresh EditState on a seed document *)
(*   op    {op, args, r, ul, cr, doc, x}   one public editing operation     *)
(*   undo / redo {r, ul, cr, doc, x[, site]}                                *)
(*   begin {ul, cr, doc, x}                begin_atomic_undo                *)
(*   end   {kind: "drop"|"end", ul, cr, doc, x}   guard dropped / guard.end()*)
(*         (r = "panic" + site when closing the guard panicked)             *)
(* r = "ok" | "err" | "panic" | "skip" (operation not applicable, not called)*)
(* ul = undo_stack_len(), cr = can_redo() (0/1) AFTER the call              *)
(* doc = digest of the observational snapshot of the document (what the     *)
(*       property talks about), x = digest of a stricter snapshot that also *)
(*       covers stored cells outside a layer's current size etc.            *)
(*                                                                         *)
(* In trace mode a "document" of Undo.tla is the record [w |-> doc, x |-> x]*)
(* of the two recorded digests.                                             *)
(*                                                                         *)
(* Property layer (Check, decides the verdict) - literal C08:               *)
(*   UndoOk/RedoOk   undo()/redo() returned Ok and did not panic            *)
(*   UndoRestores    after an undo the document digest equals the digest    *)
(*                   RECORDED before the step was added                     *)
(*   RedoRestores    after a redo it equals the digest recorded after it    *)
(*   EditLeavesStep  a successful operation that changed the document added *)
(*                   at least one step (otherwise undoing "the steps it     *)
(*                   added" cannot restore anything)                        *)
(*   EditClearsRedo  no redo is possible after a successful operation that  *)
(*                   added steps                                            *)
(* Only the first violation of a case is reported (a wrong document makes   *)
(* every later comparison of the same case meaningless).                    *)
(* Model layer (Expect, drift only): stack lengths and can_redo as Undo.tla *)
(* predicts them for undo/redo/begin/end, the strict digest x restored by   *)
(* undo/redo, documents untouched by begin/end/no-op calls.                 *)
(***************************************************************************)
EXTENDS Undo, TraceLib
VARIABLES l, st, cut, taint
vars == <<l, st, cut, taint>>

D(e) == [w |-> e.doc, x |-> e.x]
W(d) == IF d = UNK THEN UNK ELSE d.w
X(d) == IF d = UNK THEN UNK ELSE d.x
WStep(s) == [b |-> W(s.b), a |-> W(s.a)]

Init == l = 1 /\ st = InitState(UNK) /\ cut = TRUE /\ taint = "" /\ InitRegs

\* ---- adoption of recorded observables (after a drift the recorded values win)
\* The stack lengths disagree with the model: which recorded document belongs to which step of the engine is no
\* longer known.  What remains true whatever the engine did with its steps: undoing ALL of them must give the document
\* the history started from (the `b` of the bottom step).  Everything else becomes UNK, so that the property layer
\* never judges the engine by the model's idea of how steps are grouped.
Forget(s, ul) ==
  LET b0 == IF s.past = <<>> THEN UNK ELSE s.past[1].b IN
  [s EXCEPT !.past = [i \in 1..ul |-> Step(IF i = 1 THEN b0 ELSE UNK, UNK, "?")],
            !.future = [i \in 1..Len(s.future) |-> Step(UNK, UNK, "?")],
            !.open = [i \in 1..Len(s.open) |-> [s.open[i] EXCEPT !.len0 = IF @ > ul THEN ul ELSE @]]]
AdoptLen(s, ul) == IF Len(s.past) = ul THEN s ELSE Forget(s, ul)
AdoptCr(s, cr) ==
  IF cr = 0 THEN [s EXCEPT !.future = <<>>]
  ELSE IF s.future = <<>> THEN [s EXCEPT !.future = <<Step(UNK, UNK, "?")>>] ELSE s
Adopt(s, e) == AdoptCr(AdoptLen([s EXCEPT !.doc = D(e)], e.ul), e.cr)
\* n steps of which only the first `before` and the last `after` document are known
Span(b, a, n, t) == [i \in 1..n |-> Step(IF i = 1 THEN b ELSE UNK, IF i = n THEN a ELSE UNK, t)]

StacksAs(s, e) == e.ul = Len(s.past) /\ (e.cr = 1) = CanRedo(s)
Tag(s) == IF s = <<>> THEN "none" ELSE Top(s).t

\* ---- one recorded call
Op(e) ==
  IF e.r = "skip" THEN
    /\ Bump(8)
    /\ Expect(e.doc = W(st.doc) /\ e.x = X(st.doc) /\ StacksAs(st, e), "skip-changed-state", l, [op |-> e.op])
    /\ st' = Adopt(st, e) /\ UNCHANGED <<cut, taint>>
  ELSE IF e.r # "ok" THEN      \* error or panic inside an editing operation: outside the antecedent, the history ends here
    /\ Bump(7) /\ cut' = TRUE /\ UNCHANGED <<st, taint>>
  ELSE
    LET k == e.ul - Len(st.past) IN
    IF k < 0 THEN
      /\ Drift("op-removed-steps", l, [op |-> e.op, k |-> k])
      /\ st' = Adopt(st, e) /\ UNCHANGED <<cut, taint>>
    ELSE IF k = 0 THEN
      LET ok == EditLeavesStep(W(st.doc), e.doc, k) IN
      /\ Bump(4) /\ Bump(11)
      /\ Check(ok, "C08", "EditLeavesStep", l, [op |-> e.op, taint |-> taint])
      /\ Expect(e.x = X(st.doc), "nop-strict-digest", l, [op |-> e.op])
      /\ Expect(e.cr = 1 => CanRedo(st), "nop-redo-appeared", l, [op |-> e.op])
      /\ st' = Adopt(Touch(st, e.cr = 0), e)
      /\ cut' = ~ok /\ UNCHANGED taint
    ELSE
      LET ok == EditClearsRedo(k, e.cr = 1)
          ds == [i \in 1..k |-> IF i = k THEN D(e) ELSE UNK] IN
      /\ Bump(4) /\ (IF k > 1 THEN Bump(12) ELSE TRUE)
      /\ Check(ok, "C08", "EditClearsRedo", l, [op |-> e.op, taint |-> taint])
      /\ st' = Adopt(EditVia(st, ds, e.op), e)
      /\ cut' = ~ok /\ UNCHANGED taint

UndoRedo(e, isUndo) ==
  LET can == IF isUndo THEN CanUndo(st) ELSE CanRedo(st)
      en == IF isUndo THEN Top(st.past) ELSE Head(st.future)
      tag == IF can THEN en.t ELSE "none"
      nxt == IF isUndo THEN UndoStep(st) ELSE RedoStep(st)
      want == IF isUndo THEN en.b ELSE en.a
      name == IF isUndo THEN "Undo" ELSE "Redo" IN
  IF st.open # <<>> THEN Viol("TOOL", "undo-inside-open-group", l, e.ev) /\ UNCHANGED <<st, cut, taint>>
  ELSE IF e.r # "ok" THEN
    /\ Viol("C08", name \o (IF e.r = "panic" THEN "Panics" ELSE "Fails"), l, [op |-> tag, taint |-> taint, site |-> IF Has(e, "site") THEN e.site ELSE ""])
    /\ cut' = TRUE /\ UNCHANGED <<st, taint>>
  ELSE IF ~can THEN
    /\ Bump(IF isUndo THEN 9 ELSE 10)
    /\ Expect(e.doc = W(st.doc) /\ e.x = X(st.doc) /\ StacksAs(st, e), "empty-" \o e.ev \o "-changed-state", l, <<>>)
    /\ st' = Adopt(st, e) /\ UNCHANGED <<cut, taint>>
  ELSE
    LET ok == IF isUndo THEN UndoRestores(WStep(en), e.doc) ELSE RedoRestores(WStep(en), e.doc)
        strict == X(want) = UNK \/ e.x = X(want) IN
    /\ Bump(IF isUndo THEN 5 ELSE 6)
    /\ Check(ok, "C08", name \o "Restores", l, [op |-> tag, taint |-> taint, want |-> W(want), got |-> e.doc])
    /\ Expect(strict, e.ev \o "-strict-digest", l, [op |-> tag])
    /\ Expect(StacksAs(nxt, e), e.ev \o "-stacks", l, [op |-> tag, ul |-> e.ul, cr |-> e.cr, expul |-> Len(nxt.past)])
    \* the redo stack of the model is kept even if can_redo disagrees: "redoing the steps restores the state reached
    \* after the sequence" is judged against the steps that WERE undone, not against what the engine still remembers
    /\ st' = AdoptLen([nxt EXCEPT !.doc = D(e)], e.ul)
    /\ cut' = ~ok
    /\ taint' = IF taint = "" /\ ok /\ ~strict THEN tag ELSE taint

Group(e) ==
  IF e.ev = "begin" THEN
    LET nxt == Begin(st) IN
    /\ Expect(e.doc = W(st.doc) /\ e.x = X(st.doc), "begin-changed-document", l, <<>>)
    /\ Expect(StacksAs(nxt, e), "begin-stacks", l, [ul |-> e.ul, cr |-> e.cr])
    /\ st' = Adopt(nxt, e) /\ UNCHANGED <<cut, taint>>
  ELSE IF st.open = <<>> THEN Viol("TOOL", "end-without-begin", l, e.ev) /\ UNCHANGED <<st, cut, taint>>
  ELSE IF Has(e, "r") /\ e.r # "ok" THEN      \* closing the guard panicked: not a statement of C08, but the model never does that
    /\ Drift("end-panicked", l, [kind |-> e.kind, site |-> IF Has(e, "site") THEN e.site ELSE ""])
    /\ cut' = TRUE /\ UNCHANGED <<st, taint>>
  ELSE
    LET nxt == IF e.kind = "end" THEN EndExplicit(st) ELSE EndDrop(st) IN
    /\ Expect(e.doc = W(st.doc) /\ e.x = X(st.doc), "end-changed-document", l, <<>>)
    /\ Expect(StacksAs(nxt, e), "end-stacks", l, [kind |-> e.kind, ul |-> e.ul, expul |-> Len(nxt.past), cr |-> e.cr])
    \* an engine that closes the group into a different number of steps than the model: the steps pushed since Begin
    \* become e.ul - len0 steps between the same two documents
    /\ LET g == Top(st.open)  cnt == e.ul - g.len0 IN
       st' = IF e.ul # Len(nxt.past) /\ cnt >= 1 /\ Len(st.past) > g.len0
             THEN AdoptCr([nxt EXCEPT !.doc = D(e),
                                      !.past = SubSeq(st.past, 1, g.len0) \o Span(st.past[g.len0 + 1].b, Top(st.past).a, cnt, "group")], e.cr)
             ELSE Adopt(nxt, e)
    /\ UNCHANGED <<cut, taint>>

Next ==
  /\ l <= Len(Rec)
  /\ LET e == Rec[l] IN
     /\ Bump(3)
     /\ IF e.ev = "reset" THEN
          /\ Expect(e.ul = 0 /\ e.cr = 0, "fresh-state-has-history", l, <<>>)
          /\ st' = Adopt(InitState(D(e)), e) /\ cut' = FALSE /\ taint' = ""
        ELSE IF cut THEN UNCHANGED <<st, cut, taint>>      \* rest of a cut history: not judged
        ELSE CASE e.ev = "op" -> Op(e)
               [] e.ev = "undo" -> UndoRedo(e, TRUE)
               [] e.ev = "redo" -> UndoRedo(e, FALSE)
               [] e.ev \in {"begin", "end"} -> Group(e)
               [] OTHER -> Viol("TOOL", "unknown-event", l, e.ev) /\ UNCHANGED <<st, cut, taint>>
  /\ l' = l + 1
Spec == Init /\ [][Next]_vars
=============================================================================
