SPECIFICATION Spec
CONSTANTS MaxW = 3
          MaxH = 3
          MinCells = 1
          MaxCells = 4
          AlphaName = "glyph"
          OpSet = "all"
          Prot = FALSE
          Quirks <- EngineQuirks
INVARIANT ResultKinds
INVARIANT EmptyAreaNoop
INVARIANT FlipInvolution
INVARIANT FlipsCommute
INVARIANT JustifyIdempotent
INVARIANT CenterIdempotent
INVARIANT JustifyDual
INVARIANT ScrollDual
INVARIANT ScrollInverse
INVARIANT ScrollOrder
INVARIANT InsertDelete
INVARIANT RowColShape
INVARIANT EraseLaw
INVARIANT EraseRowLaws
INVARIANT EraseColumnLaws
INVARIANT Frame
INVARIANT SelectionLaw
INVARIANT Protection
INVARIANT CropLaw
INVARIANT BagKept
INVARIANT TextKept
INVARIANT JustifiedShape
INVARIANT CharLaws
CHECK_DEADLOCK FALSE
