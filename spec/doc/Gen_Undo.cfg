SPECIFICATION Spec
CONSTANTS UNK = UNK
          Docs = {1}
          MaxEdits = 3
          MaxDepth = 2
          MaxBegins = 2
          MaxSteps = 4
          GenMode = TRUE
INVARIANT Emit
VIEW ViewGen
CHECK_DEADLOCK FALSE
