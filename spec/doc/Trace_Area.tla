----------------------------- MODULE Trace_Area -----------------------------
(***************************************************************************)
(* Validates recorded executions of the editor's area / row / column        *)
(* operations on the real icy_engine::editor::EditState against Area.tla.   *)
(* Events (harness/src/area.rs):                                            *)
(*   maps  {fx, fy, unstable}   first event of a file: the glyph mirror maps *)
(*                              (checked against what Area.tla knows about   *)
(*                              them: MapSane437, MapClosed, MapSlashes)     *)
(*                              of flip_x / flip_y as triples <<page, from,  *)
(*                              to>>, probed through the public API          *)
(*   reset {case, src, d}       a fresh EditState; d = the document as the   *)
(*                              engine shows it (Layer::get_char of every    *)
(*                              cell, sizes, offsets, stored rows, flags,    *)
(*                              selection, current layer)                    *)
(*   op    {o, sel, r, d[, site, msg]}  one public call: o = [op, a, c],     *)
(*                              sel = selection in force at the call,        *)
(*                              r = "ok" | "err" | "panic", d = the document *)
(*                              after the call                               *)
(*                                                                         *)
(* EVERYTHING here is the model layer (Expect -> drift): C08 does not say    *)
(* what an operation means, so no disagreement with Area.tla can be a        *)
(* violation of C08.  A panic of the engine inside an operation is reported  *)
(* as drift "result" with the panic site unless the model predicts it (the   *)
(* defects listed in Quirks).  After every event the recorded document is    *)
(* adopted, so one disagreement does not hide the next operation.            *)
(* Registers: 4 cases, 5 calls, 6 documents compared (model and engine both  *)
(* ok), 7 engine panics, 8 bit mask of the operations compared at least once *)
(* (bit k = k-th name of OpOrder), 9 panics predicted by the model,          *)
(* 10 calls that returned Err, 11 calls on documents with >= 2 layers,       *)
(* 12 calls whose area was a proper part of the layer.                       *)
(***************************************************************************)
EXTENDS Area, TraceLib
VARIABLES l, td, tm, live
vars == <<l, td, tm, live>>

OpOrder == <<"justify_left", "justify_right", "center", "flip_x", "flip_y", "justify_line_left", "justify_line_right", "center_line",
             "scroll_area_left", "scroll_area_right", "scroll_area_up", "scroll_area_down", "erase_selection", "erase_row",
             "erase_row_to_start", "erase_row_to_end", "erase_column", "erase_column_to_start", "erase_column_to_end", "delete_row",
             "insert_row", "delete_column", "insert_column", "crop", "set_char", "swap_char", "paste", "stamp_layer_down">>
OpBit(n) == 2 ^ ((CHOOSE i \in 1..Len(OpOrder) : OpOrder[i] = n) - 1)
Mark(n) == IF (TLCGet(8) \div OpBit(n)) % 2 = 0 THEN TLCSet(8, TLCGet(8) + OpBit(n)) ELSE TRUE

MkMap(tr) ==
  LET ks == {<<tr[i][1], tr[i][2]>> : i \in 1..Len(tr)} IN
  [k \in ks |-> tr[CHOOSE i \in 1..Len(tr) : tr[i][1] = k[1] /\ tr[i][2] = k[2]][3]]

Init == l = 1 /\ td = [bw |-> 0, bh |-> 0, cur |-> 0, sel |-> <<>>, layers |-> <<>>] /\ tm = [x |-> NoMap, y |-> NoMap] /\ live = FALSE /\ InitRegs

\* where two documents differ (evaluated only when they do)
CellDiff(a, b) ==
  LET p == CHOOSE p \in (1..a.h) \X (1..a.w) : a.g[p[1]][p[2]] # b.g[p[1]][p[2]] IN
  [x |-> p[2] - 1, y |-> p[1] - 1, model |-> a.g[p[1]][p[2]], engine |-> b.g[p[1]][p[2]]]
LayerDiff(a, b) ==
  IF a.w # b.w \/ a.h # b.h THEN [what |-> "size", model |-> <<a.w, a.h>>, engine |-> <<b.w, b.h>>]
  ELSE IF a.ox # b.ox \/ a.oy # b.oy THEN [what |-> "offset", model |-> <<a.ox, a.oy>>, engine |-> <<b.ox, b.oy>>]
  ELSE IF a.g # b.g THEN [what |-> "cells", first |-> CellDiff(a, b)]
  ELSE IF a.nl # b.nl THEN [what |-> "stored-rows", model |-> a.nl, engine |-> b.nl]
  ELSE [what |-> "flags", model |-> <<a.lock, a.al, a.pl>>, engine |-> <<b.lock, b.al, b.pl>>]
DocDiff(a, b) ==
  IF a.bw # b.bw \/ a.bh # b.bh THEN [what |-> "buffer-size", model |-> <<a.bw, a.bh>>, engine |-> <<b.bw, b.bh>>]
  ELSE IF a.sel # b.sel THEN [what |-> "selection", model |-> a.sel, engine |-> b.sel]
  ELSE IF Len(a.layers) # Len(b.layers) THEN [what |-> "layer-count", model |-> Len(a.layers), engine |-> Len(b.layers)]
  ELSE IF a.cur # b.cur THEN [what |-> "current-layer", model |-> a.cur, engine |-> b.cur]
  ELSE LET i == CHOOSE i \in 1..Len(a.layers) : a.layers[i] # b.layers[i] IN [layer |-> i - 1, diff |-> LayerDiff(a.layers[i], b.layers[i])]

\* the glyph maps are supplied by the trace; what the model knows about them is checked here (drift "maps:...")
Maps(e, mx, my, unst) ==
  /\ Expect(MapSane437(mx, FlipXPairs437, unst), "maps:flip_x-table-of-the-default-font", l, [n |-> Cardinality(DOMAIN mx)])
  /\ Expect(MapSane437(my, FlipYPairs437, unst), "maps:flip_y-table-of-the-default-font", l, [n |-> Cardinality(DOMAIN my)])
  /\ Expect(MapClosed(mx, unst) /\ MapClosed(my, unst), "maps:not-closed", l, <<>>)
  /\ Expect(MapSlashes(mx, {0, 1}, unst), "maps:flip_x-slashes", l, <<>>)
  /\ tm' = [x |-> mx, y |-> my] /\ UNCHANGED <<td, live>>

Partial(d0) == d0.layers # <<>> /\ LET L == Cur(d0)  a == AreaOf(d0.sel, L) IN ~Empty(a) /\ (a.w < L.w \/ a.h < L.h)

\* m = what the model says about this call (operator argument: evaluated once)
Judge(e, d0, m) ==
  /\ Bump(5)
  /\ (IF Len(d0.layers) >= 2 THEN Bump(11) ELSE TRUE)
  /\ (IF Partial(d0) THEN Bump(12) ELSE TRUE)
  /\ (IF e.r = "panic" THEN Bump(7) ELSE TRUE)
  /\ (IF e.r = "err" THEN Bump(10) ELSE TRUE)
  /\ (IF e.r = "panic" /\ m.r = "panic" THEN Bump(9) ELSE TRUE)
  /\ Expect(m.r = e.r, "result:" \o e.o.op, l,
            [op |-> e.o.op, a |-> e.o.a, sel |-> e.sel, model |-> m.r, engine |-> e.r, site |-> IF Has(e, "site") THEN e.site ELSE "", msg |-> IF Has(e, "msg") THEN e.msg ELSE ""])
  /\ (IF m.r = "ok" /\ e.r = "ok"
      THEN /\ Bump(6) /\ Mark(e.o.op)
           /\ Expect(Shown(m.d) = e.d, "document:" \o e.o.op, l, [op |-> e.o.op, a |-> e.o.a, sel |-> e.sel, diff |-> DocDiff(Shown(m.d), e.d)])
      ELSE TRUE)
  \* adopt what the engine shows; the raw current-layer field is not observable: keep the model's while it explains the shown one
  /\ td' = IF m.r = "ok" /\ Shown([e.d EXCEPT !.cur = m.d.cur]).cur = e.d.cur THEN [e.d EXCEPT !.cur = m.d.cur] ELSE e.d
  /\ live' = (e.r # "panic")                        \* after a panic the rest of the case is not driven
  /\ UNCHANGED tm

Next ==
  /\ l <= Len(Rec)
  /\ LET e == Rec[l] IN
     /\ Bump(3)
     /\ CASE e.ev = "maps" -> Maps(e, MkMap(e.fx), MkMap(e.fy), {<<e.unstable[i][1], e.unstable[i][2]>> : i \in 1..Len(e.unstable)})
          [] e.ev = "reset" -> Bump(4) /\ td' = e.d /\ live' = TRUE /\ UNCHANGED tm
          [] e.ev = "op" /\ live /\ e.o.op \in AllOps -> Judge(e, [td EXCEPT !.sel = e.sel], Apply([td EXCEPT !.sel = e.sel], e.o, tm.x, tm.y))
          [] OTHER -> Viol("TOOL", "unknown-event", l, e.ev) /\ UNCHANGED <<td, tm, live>>
  /\ l' = l + 1
Spec == Init /\ [][Next]_vars
=============================================================================
