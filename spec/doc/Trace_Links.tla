----------------------------- MODULE Trace_Links ----------------------------
(***************************************************************************)
(* Validates recorded calls of Buffer::is_position_in_range / get_string /   *)
(* parse_hyperlinks against Links.tla (harness/src/links.rs).  Model layer   *)
(* only.  Registers: 4 ranges compared, 5 positions judged, 6 walks          *)
(* compared, 7 URL buffers, 8 ranges on which predicate and walk disagree    *)
(* (WrappedRangeMiss, as the model predicts).                                *)
(***************************************************************************)
EXTENDS Links, TraceLib, FiniteSets
VARIABLES l
vars == <<l>>
Init == l = 1 /\ InitRegs
Cells(xs) == {<<xs[i][1], xs[i][2]>> : i \in 1..Len(xs)}
Next ==
  /\ l <= Len(Rec)
  /\ LET e == Rec[l] IN
     /\ Bump(3)
     /\ CASE e.ev = "range" ->
               LET from == <<e.from[1], e.from[2]>>
                   grid == {<<a, b>> : a \in 0..(e.w - 1), b \in 0..(e.h - 1)}
                   m == {p \in grid : InRangeCode(p, from, e.size, e.w)}
                   wk == [i \in 1..e.size |-> LET p == Nth(from, i - 1, e.w) IN IF p[2] < e.h THEN p ELSE <<-1, -1>>] IN
               /\ Bump(4) /\ BumpBy(5, Cardinality(grid)) /\ Bump(6)
               /\ (IF m # (Covered(from, e.size, e.w) \cap grid) THEN Bump(8) ELSE TRUE)
               /\ Expect(Cells(e.in) = m, "is_position_in_range", l, [w |-> e.w, from |-> e.from, size |-> e.size, model |-> m, engine |-> e.in])
               /\ Expect([i \in 1..Len(e.walk) |-> <<e.walk[i][1], e.walk[i][2]>>] = wk, "get_string-walk", l, [w |-> e.w, from |-> e.from, size |-> e.size, model |-> wk, engine |-> e.walk])
          [] e.ev = "url" ->
               /\ Bump(7)
               /\ Expect(e.r = "ok" /\ Len(e.found) = 1 /\ (Len(e.found) = 1 => e.found[1].text = e.url), "parse_hyperlinks", l, [col |-> e.col, found |-> e.found])
          [] OTHER -> Viol("TOOL", "unknown-event", l, e.ev)
  /\ l' = l + 1
Spec == Init /\ [][Next]_vars
=============================================================================
