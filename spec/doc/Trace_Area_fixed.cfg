SPECIFICATION Spec
CONSTANT Quirks <- NoQuirks
POSTCONDITION Post
CHECK_DEADLOCK FALSE
