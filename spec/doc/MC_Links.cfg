SPECIFICATION Spec
CONSTANTS MaxW = 5
          MaxSize = 12
INVARIANTS OneRowAgrees NeverBefore WrapMissWitness WalkShape FixedAgrees
CHECK_DEADLOCK FALSE
