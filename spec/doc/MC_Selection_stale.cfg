SPECIFICATION Spec
CONSTANTS BW = 2
          BH = 2
          Coords <- CoordsB
          Stale = TRUE
INVARIANTS TypeOK RectangleCovers SomethingIffAny ClearClears InverseFlips InverseTwice AddKeepsReading AddThenDeselect LinesSymmetric
PROPERTIES MaskFrame SelOnlyFrame
VIEW View
CHECK_DEADLOCK FALSE
