SPECIFICATION Spec
CONSTANTS Walk = "pairs"
          Unis = {"geo"}
          AlphaName = "transp"
          Depth = 1
          Few = FALSE
          HB <- SmallHB
INVARIANTS ResultKinds ErrKinds LenArith PushLaw SilentOk CurBound CurLaw Frame Only
INVARIANTS RaiseLower LowerRaise DuplicateRemove AddRemove ToggleTwice SizeSame SizeBack PropsSame PropsBack TransparentIdempotent Rotate4 AnchorIsMerge
INVARIANTS AddKeepsShown SizeSameKeepsShown HiddenEditsKeepShown MergeKeepsShown MergeRect
INVARIANTS UndoRestores RedoRestores UndoRedoNoPanic UndoRedoStacks
VIEW View
CHECK_DEADLOCK FALSE
