------------------------------ MODULE MC_Undo ------------------------------
(***************************************************************************)
(* R1: exhaustive small-scope check of the undo/redo design (Undo.tla),     *)
(* R2: generator of history SHAPES for the Rust driver (Gen_Undo.cfg).      *)
(*                                                                         *)
(* The stack-based design is checked against an independent description of  *)
(* linear undo: a TIMELINE of documents with a cursor (ghost variables tl,  *)
(* cur).  Undo moves the cursor left, redo right, an edit cuts the timeline *)
(* behind the cursor and appends, closing an atomic group removes the       *)
(* boundaries inside the group.                                             *)
(***************************************************************************)
EXTENDS Undo, TLC, Json
CONSTANTS Docs,        \* opaque documents
          MaxEdits,    \* successful operations (each pushing 0, 1 or 2 steps)
          MaxDepth,    \* nesting depth of atomic groups
          MaxBegins,   \* groups opened in one history
          MaxSteps,    \* undo/redo calls
          GenMode      \* TRUE: only the shape alphabet E U R B X Y, one document
VARIABLES st,          \* the design state of Undo.tla
          tl, cur,     \* ghost: timeline of documents at step boundaries, cursor
          doc0,        \* ghost: the initial document
          last,        \* ghost: what the last action was
          hist,        \* the shape: sequence of letters
          edits, steps, begins, cut
vars == <<st, tl, cur, doc0, last, hist, edits, steps, begins, cut>>

NoLast == [act |-> "init", n |-> 0, len0 |-> 0, base |-> UNK]

Init == /\ doc0 = (CHOOSE d \in Docs : TRUE) /\ st = InitState(doc0)
        /\ tl = <<doc0>> /\ cur = 1
        /\ last = NoLast /\ hist = <<>> /\ edits = 0 /\ steps = 0 /\ begins = 0 /\ cut = FALSE

Prefix(s, n) == SubSeq(s, 1, n)

\* one successful operation pushing Len(ds) >= 1 steps
Edit(ds, letter) ==
  /\ edits < MaxEdits
  /\ st' = EditVia(st, ds, "group")   \* descriptions are diagnostics only: one constant in MC mode
  /\ tl' = Prefix(tl, cur) \o ds /\ cur' = cur + Len(ds)
  /\ last' = [NoLast EXCEPT !.act = "edit", !.n = Len(ds)]
  /\ hist' = Append(hist, letter) /\ edits' = edits + 1 /\ UNCHANGED <<doc0, steps, begins, cut>>

\* a successful operation that finds nothing to do
Nop(c) ==
  /\ edits < MaxEdits
  /\ st' = Touch(st, c)
  /\ tl' = IF c THEN Prefix(tl, cur) ELSE tl
  /\ last' = [NoLast EXCEPT !.act = "nop"]
  /\ hist' = Append(hist, IF c THEN "n" ELSE "N") /\ edits' = edits + 1 /\ UNCHANGED <<cur, doc0, steps, begins, cut>>

\* an operation that reports an error (or panics): outside the property's antecedent, the history is cut here
Fail ==
  /\ edits < MaxEdits
  /\ cut' = TRUE /\ hist' = Append(hist, "F")
  /\ UNCHANGED <<st, tl, cur, doc0, last, edits, steps, begins>>

BeginGroup ==
  /\ Len(st.open) < MaxDepth /\ begins < MaxBegins
  /\ st' = Begin(st)
  /\ tl' = Prefix(tl, cur)
  /\ last' = [NoLast EXCEPT !.act = "begin"]
  /\ hist' = Append(hist, "B") /\ begins' = begins + 1 /\ UNCHANGED <<cur, doc0, edits, steps, cut>>

EndGroup(explicit) ==
  /\ st.open # <<>>
  /\ LET g == Top(st.open)  n == Len(st.past) - g.len0 IN
     /\ st' = IF explicit THEN EndExplicit(st) ELSE EndDrop(st)
     /\ IF n > 0 THEN tl' = Append(Prefix(tl, cur - n), tl[cur]) /\ cur' = cur - n + 1
        ELSE IF explicit THEN tl' = Append(Prefix(tl, cur), tl[cur]) /\ cur' = cur + 1
        ELSE UNCHANGED <<tl, cur>>
     /\ last' = [act |-> IF explicit THEN "endexp" ELSE "enddrop", n |-> n, len0 |-> g.len0, base |-> g.base]
  /\ hist' = Append(hist, IF explicit THEN "Y" ELSE "X") /\ UNCHANGED <<doc0, edits, steps, begins, cut>>

\* undo/redo are only issued while no group is open (a guard that outlives an undo would drain below its base)
DoUndo ==
  /\ st.open = <<>> /\ steps < MaxSteps
  /\ (GenMode => (CanUndo(st) \/ hist = <<>>))       \* generator: no-op undo only as the very first call
  /\ st' = UndoStep(st)
  /\ cur' = IF cur > 1 THEN cur - 1 ELSE cur
  /\ last' = [NoLast EXCEPT !.act = "undo"]
  /\ hist' = Append(hist, "U") /\ steps' = steps + 1 /\ UNCHANGED <<tl, doc0, edits, begins, cut>>

DoRedo ==
  /\ st.open = <<>> /\ steps < MaxSteps
  /\ (GenMode => (CanRedo(st) \/ hist = <<>>))
  /\ st' = RedoStep(st)
  /\ cur' = IF cur < Len(tl) THEN cur + 1 ELSE cur
  /\ last' = [NoLast EXCEPT !.act = "redo"]
  /\ hist' = Append(hist, "R") /\ steps' = steps + 1 /\ UNCHANGED <<tl, doc0, edits, begins, cut>>

Next ==
  /\ ~cut
  /\ \/ \E d \in Docs : Edit(<<d>>, "E")
     \/ (~GenMode /\ \E m \in Docs, d \in Docs : Edit(<<m, d>>, "D"))
     \/ (~GenMode /\ \E c \in BOOLEAN : Nop(c))
     \/ (~GenMode /\ Fail)
     \/ BeginGroup \/ EndGroup(FALSE) \/ EndGroup(TRUE)
     \/ DoUndo \/ DoRedo
Spec == Init /\ [][Next]_vars

\* ---------------------------------------------------------------- invariants (R1)
\* (1) refinement: the two stacks are exactly the timeline left and right of the cursor
Refines ==
  /\ cur \in 1..Len(tl) /\ st.doc = tl[cur]
  /\ Len(st.past) = cur - 1 /\ Len(st.future) = Len(tl) - cur
  /\ \A i \in 1..Len(st.past) : (st.past[i].b = tl[i] /\ st.past[i].a = tl[i + 1])
  /\ \A j \in 1..Len(st.future) : (st.future[j].b = tl[cur + j - 1] /\ st.future[j].a = tl[cur + j])
\* (2) the property statement itself, evaluated from EVERY reachable state without open groups: undoing all the
\*     steps the history added restores the initial document, redoing them restores the current one
UnwindRestores ==
  st.open = <<>> =>
    LET n == Len(st.past)  u == Times("undo", st, n)  r == Times("redo", u, n) IN
    /\ u.doc = doc0 /\ u.past = <<>> /\ r = st
\* (3) ... and redoing whatever is redoable and undoing it again comes back here
RewindRestores ==
  st.open = <<>> =>
    LET n == Len(st.future)  r == Times("redo", st, n) IN
    /\ r.future = <<>> /\ r.doc = tl[Len(tl)] /\ Times("undo", r, n) = st
\* (4) a new edit discards the redo history
EditClearsRedoInv == last.act = "edit" => ~CanRedo(st)
\* (5) a closed, non-empty group is ONE step that leads back to the document at its begin
GroupIsOneStep ==
  (last.act \in {"enddrop", "endexp"} /\ last.n > 0) =>
     /\ Len(st.past) = last.len0 + 1 /\ Top(st.past).b = last.base /\ Top(st.past).a = st.doc
     /\ (st.open = <<>> => UndoStep(st).doc = last.base)
EmptyGroup ==
  (last.act = "enddrop" /\ last.n = 0 => Len(st.past) = last.len0)
  /\ (last.act = "endexp" /\ last.n = 0 => Len(st.past) = last.len0 + 1 /\ Top(st.past) = Step(st.doc, st.doc, "group"))
\* (6) structure
Structure == Linked(st) /\ GroupsNested(st)
Inv == ~cut => (Refines /\ UnwindRestores /\ RewindRestores /\ EditClearsRedoInv /\ GroupIsOneStep /\ EmptyGroup /\ Structure)

\* ---------------------------------------------------------------- views and generator
ViewMC == <<st, tl, cur, doc0, last, edits, steps, begins, cut>>
ViewGen == hist
RECURSIVE Join(_)
Join(s) == IF s = <<>> THEN "" ELSE s[1] \o Join(Tail(s))
\* complete shapes only (no open group); the driver prunes shapes that are prefixes of others
Emit == (hist # <<>> /\ st.open = <<>>) => PrintT(<<"WITNESS", ToJson([shape |-> Join(hist)])>>)
=============================================================================
