SPECIFICATION Spec
CONSTANT N = 3
INVARIANTS LineEnds LineConnected LineLength LineMonotone PaintSets PaintKeeps PaintIdempotent Normalised
CHECK_DEADLOCK FALSE
