SPECIFICATION Spec
CONSTANTS MaxOps = 4
          MaxLen = 3
INVARIANT Emit
CONSTRAINT Bounded
VIEW View
CHECK_DEADLOCK FALSE
