SPECIFICATION Spec
CONSTANTS MaxOps = 6
          MaxLen = 4
INVARIANT Emit
CONSTRAINT Bounded
VIEW View
CHECK_DEADLOCK FALSE
