-------------------------------- MODULE Area --------------------------------
(***************************************************************************)
(* What the editor's area / row / column operations MEAN (extends C08,      *)
(* model layer).  C08 (Undo.tla) treats documents as opaque values; this    *)
(* module says what each operation of icy_engine::editor::EditState does to *)
(* the cells: src/editor/area_operations.rs, edit_operations.rs and the     *)
(* paste / stamp part of layer_operations.rs.                               *)
(*                                                                         *)
(* A document is a stack of layers; a layer is a w x h grid of cells at an  *)
(* offset, a cell is <<ch, fg, bg, flags, page>> or the invisible cell Inv. *)
(* Coordinates are 0-based as in the engine, grids are sequences of rows    *)
(* (g[y+1][x+1]).  The operations act on the CURRENT layer, inside the      *)
(* AREA = selection rectangle (document coordinates) cut to the layer, or   *)
(* the whole layer when nothing is selected.                                *)
(*                                                                         *)
(* Every operator is written from what the operation means (mirror, shift,  *)
(* rotate, remove ...) in closed form, never as the engine's loop.  Places  *)
(* where the engine deliberately or accidentally deviates from the obvious  *)
(* meaning are marked (!).  The deviations that are DEFECTS (an operation    *)
(* contradicting its name / its own unit test, or panicking) are switched   *)
(* by the constant Quirks, one name per proposed fix                        *)
(* (proposed_fixes/C08-E<k>.md): with the name in Quirks the model follows  *)
(* the current code, without it the repaired code.  On adoption of a fix    *)
(* remove its name from EngineQuirks below - that is the only line to       *)
(* change.                                                                  *)
(*                                                                         *)
(* Ragged storage: the engine stores a layer as a vector of rows of         *)
(* different lengths; through Layer::get_char only one aspect of it is      *)
(* observable by the operations modelled here: the NUMBER OF STORED ROWS    *)
(* `nl` (scroll_area_* index the row vector directly and panic on a row     *)
(* that is not stored; Layer::set_char creates rows up to the one it        *)
(* writes).  Row lengths and cells stored beyond the layer's size are not   *)
(* observable by these operations and not modelled.                         *)
(*                                                                         *)
(* Glyph mirroring (generate_flipx_table / generate_flipy_table): the       *)
(* tables are derived from the font bitmaps; the model treats them as       *)
(* uninterpreted maps <<page, ch>> -> ch supplied from outside (by the      *)
(* trace: the driver probes them through the public API; by MC_Area: an     *)
(* abstract involution).  The engine's table is involution-like, not an     *)
(* involution: CP437 maps both 182 and 186 to 199 (and 199 to one of them,  *)
(* depending on hash-map iteration order).                                  *)
(***************************************************************************)
EXTENDS Integers, Sequences, FiniteSets
CONSTANT Quirks

\* One name per defect of the current engine that the model follows (see the header).
EngineQuirks == {
  "center-shift",          \* C08-E1: center moves a row by ceil(k/2)-1 instead of floor(k/2); a row without blanks is overwritten
  "erase-column-empty",    \* C08-E2: erase_column / _to_start / _to_end select a rectangle of width 0 and erase nothing
  "crop-offset",           \* C08-E3: crop_rect reads the cells of a layer with an offset from the wrong position
  "crop-protected-empty",  \* C08-E3: crop_rect empties locked / hidden / alpha-locked layers
  "stamp-offset",          \* C08-E4: stamp_layer_down adds the offset of the layer below instead of subtracting it
  "stamp-bottom-panic",    \* C08-E4: stamp_layer_down on the bottom layer (or with a stale current-layer field) panics
  "neg-area-panic",        \* C08-E5: a selection that does not touch the current layer makes flip / justify / center panic
  "scroll-short-panic"     \* C08-E6: scroll_area_* panic on a layer that stores fewer rows than its height
}
NoQuirks == {}
Q(n) == n \in Quirks

MinI(a, b) == IF a <= b THEN a ELSE b
MaxI(a, b) == IF a >= b THEN a ELSE b
Far == 1000000

\* ---------------------------------------------------------------------------------------------- cells
Inv == <<>>                                   \* every invisible cell (attribute bit INVISIBLE); Layer::get_char outside of the storage
Blank(c) == c = Inv \/ (c[1] \in {0, 32} /\ c[3] = 0)      \* what justify / center skip: invisible, or a space on background 0
                                                           \* (!) a VISIBLE space on black counts as blank and is dropped
\* glyph map m: function <<page, ch>> -> ch
MapC(m, c) == IF c = Inv THEN c ELSE IF <<c[5], c[1]>> \in DOMAIN m THEN [c EXCEPT ![1] = m[<<c[5], c[1]>>]] ELSE c
NoMap == [k \in {} |-> 0]

\* What a supplied glyph map must satisfy (the maps are uninterpreted, but not arbitrary).  For the default font (CP437) the
\* engine's own unit tests (test_generate_flipx_table / test_generate_flipy_table) list the mirror pairs:
FlipXPairs437 == {<<40, 41>>, <<41, 40>>, <<47, 92>>, <<92, 47>>, <<60, 62>>, <<62, 60>>, <<91, 93>>, <<93, 91>>, <<123, 125>>, <<125, 123>>,
  <<169, 170>>, <<170, 169>>, <<174, 175>>, <<175, 174>>, <<180, 195>>, <<195, 180>>, <<181, 198>>, <<198, 181>>, <<182, 199>>, <<199, 182>>,
  <<183, 214>>, <<214, 183>>, <<185, 204>>, <<204, 185>>, <<187, 201>>, <<201, 187>>, <<188, 200>>, <<200, 188>>, <<189, 211>>, <<211, 189>>,
  <<190, 212>>, <<212, 190>>, <<191, 218>>, <<218, 191>>, <<192, 217>>, <<217, 192>>, <<221, 222>>, <<222, 221>>, <<242, 243>>, <<243, 242>>,
  <<27, 26>>, <<26, 27>>, <<112, 113>>, <<113, 112>>, <<186, 199>>, <<199, 186>>, <<17, 16>>, <<16, 17>>, <<213, 184>>, <<184, 213>>}
FlipYPairs437 == {<<183, 189>>, <<189, 183>>, <<184, 190>>, <<190, 184>>, <<187, 188>>, <<188, 187>>, <<191, 217>>, <<217, 191>>, <<192, 218>>, <<218, 192>>,
  <<193, 194>>, <<194, 193>>, <<200, 201>>, <<201, 200>>, <<202, 203>>, <<203, 202>>, <<207, 209>>, <<209, 207>>, <<208, 210>>, <<210, 208>>,
  <<211, 214>>, <<214, 211>>, <<212, 213>>, <<213, 212>>, <<220, 223>>, <<223, 220>>, <<24, 25>>, <<25, 24>>, <<30, 31>>, <<31, 30>>, <<33, 173>>, <<173, 33>>}
\* m = the map without the codes in `unst` (codes whose image depends on hash-map iteration order, e.g. 199 -> 182 or 186):
\*   every listed code with one listed partner has exactly that image; nothing outside the list is mapped; the map is
\*   involution-like: the image of a mapped code is mapped too (check_bidirect)
MapSane437(m, pairs, unst) ==
  /\ \A p \in pairs : (\A q \in pairs : q[1] = p[1] => q = p) /\ <<0, p[1]>> \notin unst => <<0, p[1]>> \in DOMAIN m /\ m[<<0, p[1]>>] = p[2]
  /\ \A k \in DOMAIN m : k[1] = 0 => \E p \in pairs : p[1] = k[2]
MapClosed(m, unst) == \A k \in DOMAIN m : <<k[1], m[k]>> \in DOMAIN m \/ <<k[1], m[k]>> \in unst
\* flip_x mirrors / and \ in every font (hard-wired in generate_flipx_table)
MapsTo(m, pg, a, b, unst) == <<pg, a>> \in unst \/ (<<pg, a>> \in DOMAIN m /\ m[<<pg, a>>] = b)
MapSlashes(m, pages, unst) == \A pg \in pages : MapsTo(m, pg, 47, 92, unst) /\ MapsTo(m, pg, 92, 47, unst)

\* ---------------------------------------------------------------------------------------------- layers
\* [w, h, ox, oy, nl, lock, al, pl, g]:  lock = 1: is_locked or hidden (Layer::set_char refuses every write),
\* al = 1: alpha channel present and locked (Layer::set_char refuses to write over an invisible cell),
\* pl = 1: position locked (Layer::set_offset refuses), nl = number of stored rows.
InvRow(w) == [i \in 1..w |-> Inv] \o <<>>
InvGrid(w, h) == [j \in 1..h |-> InvRow(w)] \o <<>>
At(L, x, y) == IF x < 0 \/ y < 0 \/ x >= L.w \/ y >= L.h THEN Inv ELSE L.g[y + 1][x + 1]
PlainLayer(w, h, ox, oy, g) == [w |-> w, h |-> h, ox |-> ox, oy |-> oy, nl |-> h, lock |-> 0, al |-> 0, pl |-> 0, g |-> g]

\* rectangles [x, y, w, h]; a selection is <<>> (nothing selected) or <<x, y, w, h>> with w, h >= 0 in document coordinates
Rect(x, y, w, h) == [x |-> x, y |-> y, w |-> w, h |-> h]
Intersect(a, b) ==
  LET x0 == MaxI(a.x, b.x)  y0 == MaxI(a.y, b.y)
      x1 == MinI(a.x + a.w, b.x + b.w)  y1 == MinI(a.y + a.h, b.y + b.h)
  IN Rect(x0, y0, x1 - x0, y1 - y0)                          \* (!) negative sizes when the rectangles are apart
Empty(a) == a.w <= 0 \/ a.h <= 0
Negative(a) == a.w < 0 \/ a.h < 0
LayerRect(L) == Rect(L.ox, L.oy, L.w, L.h)
SelRect(s) == Rect(s[1], s[2], s[3], s[4])
\* get_area: the selection cut to the layer, in layer coordinates; the whole layer when nothing is selected
AreaOf(sel, L) ==
  IF sel = <<>> THEN Rect(0, 0, L.w, L.h)
  ELSE LET r == Intersect(SelRect(sel), LayerRect(L)) IN Rect(r.x - L.ox, r.y - L.oy, r.w, r.h)
InArea(a, x, y) == x >= a.x /\ x < a.x + a.w /\ y >= a.y /\ y < a.y + a.h

\* A write that goes through Layer::set_char honours the alpha lock: an invisible cell stays invisible.
Thru(al, old, new) == IF al /\ old = Inv THEN old ELSE new

\* New grid: cell (x, y) of the area becomes T(x, y); `hon`: the engine writes through Layer::set_char (locked and hidden layers
\* refuse, alpha-locked layers keep their invisible cells) - otherwise it edits the row vectors directly and (!) ignores the locks.
Paint(L, a, T(_, _), hon) ==
  IF hon /\ L.lock = 1 THEN L.g
  ELSE [yy \in 1..L.h |->
          IF yy - 1 < a.y \/ yy - 1 >= a.y + a.h THEN L.g[yy]
          ELSE [xx \in 1..L.w |->
                  IF xx - 1 < a.x \/ xx - 1 >= a.x + a.w THEN L.g[yy][xx]
                  ELSE Thru(hon /\ L.al = 1, L.g[yy][xx], T(xx - 1, yy - 1))] \o <<>>] \o <<>>

\* Row-wise variant: the segment of every row of the area is replaced by F(segment, whole row)
PaintRow(row, a, t, al) ==
  [xx \in 1..Len(row) |-> IF xx - 1 < a.x \/ xx - 1 >= a.x + a.w THEN row[xx] ELSE Thru(al, row[xx], t[xx - a.x])] \o <<>>
PaintRows(L, a, F(_, _), hon) ==
  IF hon /\ L.lock = 1 THEN L.g
  ELSE [yy \in 1..L.h |->
          IF yy - 1 < a.y \/ yy - 1 >= a.y + a.h THEN L.g[yy]
          ELSE PaintRow(L.g[yy], a, F(SubSeq(L.g[yy], a.x + 1, a.x + a.w), L.g[yy]), hon /\ L.al = 1)] \o <<>>
\* Layer::set_char creates the rows up to the one it writes (also when the alpha lock then refuses the cell)
Stored(L, rows) == IF L.lock = 1 THEN L.nl ELSE MaxI(L.nl, rows)

\* ---------------------------------------------------------------------------------------------- row segments
LeadBlanks(s) == LET nb == {i \in 1..Len(s) : ~Blank(s[i])} IN IF nb = {} THEN Len(s) ELSE (CHOOSE i \in nb : \A j \in nb : i <= j) - 1
TrailBlanks(s) == LET nb == {i \in 1..Len(s) : ~Blank(s[i])} IN IF nb = {} THEN Len(s) ELSE Len(s) - (CHOOSE i \in nb : \A j \in nb : i >= j)
ShiftLeft(s, k) == [i \in 1..Len(s) |-> IF i + k <= Len(s) THEN s[i + k] ELSE Inv] \o <<>>
ShiftRight(s, k) == [i \in 1..Len(s) |-> IF i - k >= 1 THEN s[i - k] ELSE Inv] \o <<>>

\* justify: the text of the row moves to the edge; what it leaves behind becomes invisible; an all-blank row is not touched
JLeft(s) == LET k == LeadBlanks(s) IN IF k = Len(s) THEN s ELSE ShiftLeft(s, k)
JRight(s) == LET k == TrailBlanks(s) IN IF k = Len(s) THEN s ELSE ShiftRight(s, k)
\* center, second pass (the row is already left-justified): move right by half of the k free cells.
\*   engine (!) "center-shift": by ceil(k/2) - 1; for k = 0 that is -1 and the in-place loop fills the whole segment with the cell
\*   right of the area (`outside`; with a locked alpha channel an invisible cell stops the cascade)
\*   repaired: by floor(k/2)
CenterPass2(s, outside, al) ==
  LET k == TrailBlanks(s) IN
  IF k = Len(s) THEN s
  ELSE IF ~Q("center-shift") THEN ShiftRight(s, k \div 2)
  ELSE IF k >= 1 THEN ShiftRight(s, (k + 1) \div 2 - 1)
  ELSE [i \in 1..Len(s) |-> IF al /\ (\E j \in (i + 1)..Len(s) : s[j] = Inv) THEN Inv ELSE outside] \o <<>>
\* mirror: cell i <-> cell n+1-i, glyphs replaced by their mirror image; (!) the middle cell of an odd segment keeps its glyph
Mirror(s, m) ==
  LET n == Len(s)  half == Len(s) \div 2 IN
  [i \in 1..n |-> IF i <= half \/ i > n - half THEN MapC(m, s[n + 1 - i]) ELSE s[i]] \o <<>>
RotLeft(s) == IF s = <<>> THEN s ELSE Tail(s) \o <<Head(s)>>
RotRight(s) == IF s = <<>> THEN s ELSE <<s[Len(s)]>> \o SubSeq(s, 1, Len(s) - 1)

\* ---------------------------------------------------------------------------------------------- operations on one layer
JustifyLeftL(L, a) == [L EXCEPT !.g = PaintRows(L, a, LAMBDA s, row : JLeft(s), TRUE)]      \* an unstored row is blank: nl unchanged
JustifyRightL(L, a) == [L EXCEPT !.g = PaintRows(L, a, LAMBDA s, row : JRight(s), TRUE)]
CenterL(L, a) ==
  LET L1 == JustifyLeftL(L, a) IN
  [L1 EXCEPT !.g = PaintRows(L1, a, LAMBDA s, row : CenterPass2(s, IF a.x + a.w < L1.w THEN row[a.x + a.w + 1] ELSE Inv, L1.al = 1), TRUE)]
FlipXL(L, a, m) ==
  [L EXCEPT !.g = PaintRows(L, a, LAMBDA s, row : Mirror(s, m), TRUE),
            !.nl = IF a.w \div 2 < 1 \/ a.h < 1 THEN @ ELSE Stored(L, a.y + a.h)]
FlipYL(L, a, m) ==
  LET half == a.h \div 2 IN
  [L EXCEPT !.g = Paint(L, a, LAMBDA x, y : IF y - a.y < half \/ y - a.y >= a.h - half
                                             THEN MapC(m, L.g[a.y + a.h - (y - a.y)][x + 1]) ELSE L.g[y + 1][x + 1], TRUE),
            !.nl = IF half < 1 \/ a.w < 1 THEN @ ELSE Stored(L, a.y + a.h)]
EraseL(L, a) == IF Empty(a) THEN L ELSE [L EXCEPT !.g = Paint(L, a, LAMBDA x, y : Inv, TRUE), !.nl = Stored(L, a.y + a.h)]

\* scrolling rotates the content of the area by one cell; direct edits of the row vectors: (!) locks are ignored
ScrollLeftL(L, a) == [L EXCEPT !.g = PaintRows(L, a, LAMBDA s, row : RotLeft(s), FALSE)]
ScrollRightL(L, a) == [L EXCEPT !.g = PaintRows(L, a, LAMBDA s, row : RotRight(s), FALSE)]
ScrollUpL(L, a) == [L EXCEPT !.g = Paint(L, a, LAMBDA x, y : L.g[a.y + ((y - a.y + 1) % a.h) + 1][x + 1], FALSE)]
ScrollDownL(L, a) == [L EXCEPT !.g = Paint(L, a, LAMBDA x, y : L.g[a.y + ((y - a.y - 1 + a.h) % a.h) + 1][x + 1], FALSE)]
WholeUpL(L) == [L EXCEPT !.g = RotLeft(L.g), !.nl = MaxI(@, L.h)]
WholeDownL(L) == [L EXCEPT !.g = RotRight(L.g), !.nl = MaxI(@, L.h)]

\* rows and columns: the row / column at the caret is removed, or an invisible one inserted before it; (!) locks are ignored;
\* (!) a caret behind the last row / column removes the last one (the size shrinks whatever was removed from the storage)
DeleteRowL(L, y) == [L EXCEPT !.h = @ - 1, !.nl = MaxI(@, y + 1) - 1,
                              !.g = [i \in 1..(L.h - 1) |-> IF i - 1 < y THEN L.g[i] ELSE L.g[i + 1]] \o <<>>]
InsertRowL(L, y) == [L EXCEPT !.h = @ + 1, !.nl = MaxI(@, y + 1) + 1,
                              !.g = [i \in 1..(L.h + 1) |-> IF i - 1 < y /\ i <= L.h THEN L.g[i]
                                                            ELSE IF i - 1 <= y THEN InvRow(L.w) ELSE L.g[i - 1]] \o <<>>]
DeleteColumnL(L, x) == [L EXCEPT !.w = @ - 1,
                                 !.g = [j \in 1..L.h |-> [i \in 1..(L.w - 1) |-> IF i - 1 < x THEN L.g[j][i] ELSE L.g[j][i + 1]] \o <<>>] \o <<>>]
InsertColumnL(L, x) == [L EXCEPT !.w = @ + 1,
                                 !.g = [j \in 1..L.h |-> [i \in 1..(L.w + 1) |-> IF i - 1 < x /\ i <= L.w THEN L.g[j][i]
                                                                                 ELSE IF i - 1 <= x THEN Inv ELSE L.g[j][i - 1]] \o <<>>] \o <<>>]

SetCharL(L, x, y, c) ==
  IF x < 0 \/ y < 0 \/ x >= L.w \/ y >= L.h \/ L.lock = 1 THEN L
  ELSE [L EXCEPT !.g[y + 1][x + 1] = Thru(L.al = 1, @, c), !.nl = MaxI(@, y + 1)]

\* stamp: every visible cell of layer S is written into layer B at displacement (dx, dy) (B coordinates = S coordinates + d)
StampL(B, S, dx, dy) ==
  LET hit == {p \in (0..(S.w - 1)) \X (0..(S.h - 1)) : S.g[p[2] + 1][p[1] + 1] # Inv /\ p[1] + dx >= 0 /\ p[1] + dx < B.w /\ p[2] + dy >= 0 /\ p[2] + dy < B.h}
      rows == {p[2] + dy + 1 : p \in hit}
  IN IF B.lock = 1 \/ hit = {} THEN B
     ELSE [B EXCEPT !.g = [yy \in 1..B.h |-> [xx \in 1..B.w |->
                               IF At(S, xx - 1 - dx, yy - 1 - dy) # Inv THEN Thru(B.al = 1, B.g[yy][xx], At(S, xx - 1 - dx, yy - 1 - dy))
                               ELSE B.g[yy][xx]] \o <<>>] \o <<>>,
                    !.nl = MaxI(@, CHOOSE r \in rows : \A q \in rows : r >= q)]

\* crop to rectangle R (document coordinates): a layer keeps the part inside R, or disappears
CropL(L, R) ==
  LET nr == Intersect(LayerRect(L), R)
      sx == IF Q("crop-offset") THEN nr.x ELSE nr.x - L.ox        \* (!) C08-E3: document coordinates used as layer coordinates
      sy == IF Q("crop-offset") THEN nr.y ELSE nr.y - L.oy
      prot == Q("crop-protected-empty") /\ (L.lock = 1 \/ L.al = 1) \* (!) C08-E3: the copy goes through the clone's own locks
  IN [L EXCEPT !.ox = IF L.pl = 1 THEN @ ELSE nr.x - R.x, !.oy = IF L.pl = 1 THEN @ ELSE nr.y - R.y,   \* (!) position lock keeps the offset
               !.w = nr.w, !.h = nr.h,
               !.nl = IF Q("crop-protected-empty") /\ L.lock = 1 THEN 0 ELSE nr.h,
               !.g = IF prot THEN InvGrid(nr.w, nr.h)
                     ELSE [j \in 1..nr.h |-> [i \in 1..nr.w |-> At(L, i - 1 + sx, j - 1 + sy)] \o <<>>] \o <<>>]

\* ---------------------------------------------------------------------------------------------- documents
\* [bw, bh, cur, sel, layers]; an operation yields [r, d]: r = "ok" | "err" | "panic"; after "panic" the document is
\* unspecified (d = the document before).
\* cur = the editor's current-layer field (0-based).  (!) It is NOT adjusted when layers disappear (crop): every reader clamps it
\* to the last layer (CurIx) - except stamp_layer_down, which uses the raw value for the layer below.  Shown = what
\* EditState::get_current_layer reports.
Res(r, d) == [r |-> r, d |-> d]
NoLayer(d) == d.layers = <<>>
CurIx(d) == MinI(d.cur, Len(d.layers) - 1)
Cur(d) == d.layers[CurIx(d) + 1]
WithCur(d, L) == [d EXCEPT !.layers[CurIx(d) + 1] = L]
Shown(d) == [d EXCEPT !.cur = IF NoLayer(d) THEN 0 ELSE CurIx(d)]

\* justify_left, justify_right, center, flip_x, flip_y
AreaOp(d, name, fx, fy) ==
  IF NoLayer(d) THEN Res("err", d)
  ELSE LET a == AreaOf(d.sel, Cur(d)) IN
       IF Negative(a) /\ Q("neg-area-panic") THEN Res("panic", d)       \* (!) C08-E5: Layer::new with a negative size
       ELSE IF Empty(a) THEN Res("ok", d)
       ELSE Res("ok", WithCur(d, CASE name = "justify_left" -> JustifyLeftL(Cur(d), a)
                                   [] name = "justify_right" -> JustifyRightL(Cur(d), a)
                                   [] name = "center" -> CenterL(Cur(d), a)
                                   [] name = "flip_x" -> FlipXL(Cur(d), a, fx)
                                   [] name = "flip_y" -> FlipYL(Cur(d), a, fy)))

\* the same on the row of the caret (layer coordinates): select the row, operate, select nothing
LineSel(d, y) == <<-Far, y + (IF NoLayer(d) THEN 0 ELSE Cur(d).oy), 2 * Far, 1>>
LineOp(d, name, y) ==
  LET r == AreaOp([d EXCEPT !.sel = LineSel(d, y)], name, NoMap, NoMap) IN
  IF r.r = "panic" THEN r ELSE Res(r.r, [r.d EXCEPT !.sel = <<>>])

ScrollOp(d, name) ==
  IF NoLayer(d) THEN Res("err", d)
  ELSE LET L == Cur(d)  a == AreaOf(d.sel, L)
           short == a.y + a.h > L.nl                                   \* a row of the area is not stored
           fill == [L EXCEPT !.nl = MaxI(@, a.y + a.h)] IN
       IF Empty(a) THEN Res("ok", d)
       ELSE IF name \in {"scroll_area_left", "scroll_area_right"} THEN
         IF short /\ Q("scroll-short-panic") THEN Res("panic", d)      \* (!) C08-E6: layer.lines[y] out of bounds
         ELSE Res("ok", WithCur(d, IF name = "scroll_area_left" THEN ScrollLeftL(fill, a) ELSE ScrollRightL(fill, a)))
       ELSE IF a.h < 2 /\ a.w < L.w THEN Res("ok", d)                  \* a single row scrolls onto itself
       ELSE IF a.w >= L.w THEN                                         \* (!) a full-width area scrolls the WHOLE layer, whatever its rows
         Res("ok", WithCur(d, IF name = "scroll_area_up" THEN WholeUpL(L) ELSE WholeDownL(L)))
       ELSE IF short /\ Q("scroll-short-panic") THEN Res("panic", d)
       ELSE Res("ok", WithCur(d, IF name = "scroll_area_up" THEN ScrollUpL(fill, a) ELSE ScrollDownL(fill, a)))

\* erase: the selected cells of the current layer become invisible, then nothing is selected
EraseSelection(d) ==
  IF d.sel = <<>> THEN Res("ok", d)
  ELSE IF NoLayer(d) THEN Res("err", d)
  ELSE Res("ok", [WithCur(d, EraseL(Cur(d), AreaOf(d.sel, Cur(d)))) EXCEPT !.sel = <<>>])
\* caret (cx, cy) in layer coordinates; "to start" = the cells before the caret, "to end" = from the caret on
ColW == IF Q("erase-column-empty") THEN 0 ELSE 1                       \* (!) C08-E2: from_coords(x, .., x, ..) has width 0
EraseSel(d, name, cx, cy) ==
  LET ox == IF NoLayer(d) THEN 0 ELSE Cur(d).ox  oy == IF NoLayer(d) THEN 0 ELSE Cur(d).oy
      x == cx + ox  y == cy + oy IN
  CASE name = "erase_row" -> <<-Far, y, 2 * Far, 1>>
    [] name = "erase_row_to_start" -> <<-Far, y, x + Far, 1>>
    [] name = "erase_row_to_end" -> <<x, y, Far - x, 1>>
    [] name = "erase_column" -> <<x, -Far, ColW, 2 * Far>>
    [] name = "erase_column_to_start" -> <<x, -Far, ColW, y + Far>>
    [] name = "erase_column_to_end" -> <<x, y, ColW, Far - y>>
EraseOp(d, name, cx, cy) == EraseSelection([d EXCEPT !.sel = EraseSel(d, name, cx, cy)])

RowColOp(d, name, k) ==
  IF NoLayer(d) THEN Res("err", d)
  ELSE Res("ok", WithCur(d, CASE name = "delete_row" -> DeleteRowL(Cur(d), k)
                              [] name = "insert_row" -> InsertRowL(Cur(d), k)
                              [] name = "delete_column" -> DeleteColumnL(Cur(d), k)
                              [] name = "insert_column" -> InsertColumnL(Cur(d), k)))

SetChar(d, x, y, c) == IF NoLayer(d) THEN Res("err", d) ELSE Res("ok", WithCur(d, SetCharL(Cur(d), x, y, c)))
\* swap = two writes of the values read before (each may be refused on its own)
SwapChar(d, x1, y1, x2, y2) ==
  IF NoLayer(d) THEN Res("err", d)
  ELSE LET c1 == At(Cur(d), x1, y1)  c2 == At(Cur(d), x2, y2) IN
       Res("ok", WithCur(d, SetCharL(SetCharL(Cur(d), x1, y1, c2), x2, y2, c1)))

\* crop to the selection: document and every layer are cut to the rectangle; without a selection nothing happens
Crop(d) ==
  IF d.sel = <<>> THEN Res("ok", d)
  ELSE LET R == SelRect(d.sel)
           kept == SelectSeq(d.layers, LAMBDA L : ~Empty(Intersect(LayerRect(L), R)))
           n == Len(kept) IN
       Res("ok", [d EXCEPT !.bw = R.w, !.bh = R.h, !.layers = [i \in 1..n |-> CropL(kept[i], R)] \o <<>>])     \* (!) cur stays

\* paste: a new layer with the clipboard block above the current one; nothing selected afterwards
Paste(d, x, y, w, h, g) ==
  IF NoLayer(d) THEN Res("err", d)
  ELSE Res("ok", [d EXCEPT !.sel = <<>>,
                           !.layers = SubSeq(@, 1, CurIx(d) + 1) \o <<PlainLayer(w, h, x, y, g)>> \o SubSeq(@, CurIx(d) + 2, Len(@))])

\* stamp the current layer into the one below it (the current layer stays)
StampDown(d) ==
  IF NoLayer(d) THEN Res("err", d)
  ELSE LET below == IF Q("stamp-bottom-panic") THEN d.cur ELSE CurIx(d) IN     \* (!) C08-E4: the raw field, not the clamped index
       IF below = 0 THEN Res(IF Q("stamp-bottom-panic") THEN "panic" ELSE "err", d)      \* (!) C08-E4: cur - 1 without a check
       ELSE IF below > Len(d.layers) THEN Res("panic", d)
       ELSE LET S == Cur(d)  B == d.layers[below]
                dx == IF Q("stamp-offset") THEN S.ox + B.ox ELSE S.ox - B.ox  \* (!) C08-E4
                dy == IF Q("stamp-offset") THEN S.oy + B.oy ELSE S.oy - B.oy IN
            Res("ok", [d EXCEPT !.layers[below] = StampL(B, S, dx, dy)])

\* ---------------------------------------------------------------------------------------------- dispatcher
\* o = [op, a (integer arguments), c (a cell or a grid where the operation takes one)]; fx, fy = glyph maps of flip_x / flip_y
AreaOps == {"justify_left", "justify_right", "center", "flip_x", "flip_y"}
LineOps == {"justify_line_left", "justify_line_right", "center_line"}
ScrollOps == {"scroll_area_left", "scroll_area_right", "scroll_area_up", "scroll_area_down"}
EraseOps == {"erase_row", "erase_row_to_start", "erase_row_to_end", "erase_column", "erase_column_to_start", "erase_column_to_end"}
RowColOps == {"delete_row", "insert_row", "delete_column", "insert_column"}
AllOps == AreaOps \cup LineOps \cup ScrollOps \cup EraseOps \cup RowColOps \cup {"erase_selection", "crop", "set_char", "swap_char", "paste", "stamp_layer_down"}
LineBase(name) == CASE name = "justify_line_left" -> "justify_left" [] name = "justify_line_right" -> "justify_right" [] name = "center_line" -> "center"

Apply(d, o, fx, fy) ==
  CASE o.op \in AreaOps -> AreaOp(d, o.op, fx, fy)
    [] o.op \in LineOps -> LineOp(d, LineBase(o.op), o.a[1])
    [] o.op \in ScrollOps -> ScrollOp(d, o.op)
    [] o.op = "erase_selection" -> EraseSelection(d)
    [] o.op \in EraseOps -> EraseOp(d, o.op, o.a[1], o.a[2])
    [] o.op \in RowColOps -> RowColOp(d, o.op, o.a[1])
    [] o.op = "crop" -> Crop(d)
    [] o.op = "set_char" -> SetChar(d, o.a[1], o.a[2], o.c)
    [] o.op = "swap_char" -> SwapChar(d, o.a[1], o.a[2], o.a[3], o.a[4])
    [] o.op = "paste" -> Paste(d, o.a[1], o.a[2], o.a[3], o.a[4], o.c)
    [] o.op = "stamp_layer_down" -> StampDown(d)
=============================================================================
