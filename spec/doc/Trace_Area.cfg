SPECIFICATION Spec
CONSTANT Quirks <- EngineQuirks
POSTCONDITION Post
CHECK_DEADLOCK FALSE
