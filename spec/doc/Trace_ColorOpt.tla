--------------------------- MODULE Trace_ColorOpt ---------------------------
(* Validates recorded runs of the real colour optimiser + reference renderer against ColorOpt.tla (C12).              *)
(* Events (harness/src/opt.rs):                                                                                       *)
(*   reset{fonts,pal,..}  font table (glyph bitmaps per slot) and palette of the documents that follow                *)
(*   opt{norm,size,osize,olayers,dims,img_eq,first_diff,cells}                                                         *)
(*        cells[i] = <<o, r>> or <<o, r, s>>: o = cell of the original composited document (Buffer::get_char),        *)
(*        r = cell stored in the optimised buffer, s = cell the optimised buffer shows (omitted when = r);             *)
(*        img_eq = the two render_to_rgba images are identical; first_diff = <<px, py, cx, cy>> of the first          *)
(*        differing pixel                                                                                             *)
(*   panic{site}                                                                                                      *)
(* Property layer (the statement itself, on recorded observables): same size, same image, no panic.                   *)
(* Model layer (drift only): (a) the stored cells are the scan of ColorOpt.tla (Rewrite with the carried colours of    *)
(* the previous STORED cell - the recorded state is adopted cell by cell); (b) every change is one the property       *)
(* allows (Allowed); (c) the shown cell is ShownFlat(stored); (d) RenderEq computed from the recorded glyph bitmaps    *)
(* agrees with the image comparison, and points at the cell of the first differing pixel.                             *)
EXTENDS ColorOpt, TraceLib
VARIABLES l, fonts, pal
vars == <<l, fonts, pal>>

Init == l = 1 /\ fonts = <<>> /\ pal = <<>> /\ InitRegs

Orig(e, i) == e.cells[i][1]
Stored(e, i) == e.cells[i][2]
ShownC(e, i) == IF Len(e.cells[i]) = 3 THEN e.cells[i][3] ELSE e.cells[i][2]

OptEvent(e) ==
  LET n == Len(e.cells)
      w == e.size[1]
      prevOf(i) == IF i = 1 THEN <<7, 0>> ELSE Carry(Stored(e, i - 1))
      defined == \A i \in 1..n : Defined(fonts, Orig(e, i))
      badScan == {i \in 1..n : Stored(e, i) # Rewrite(prevOf(i), Orig(e, i), fonts, e.norm)}
      changed == {i \in 1..n : Stored(e, i) # Orig(e, i)}
      badAllowed == {i \in changed : ~Allowed(Orig(e, i), Stored(e, i), fonts)}
      badShown == {i \in 1..n : ShownC(e, i) # ShownFlat(Stored(e, i))}
      differ == {i \in 1..n : ~RenderEq(Orig(e, i), ShownC(e, i), fonts, pal)}
      cellOf(i) == <<(i - 1) % w, (i - 1) \div w>>
  IN
  /\ Bump(4)
  /\ BumpBy(5, n)
  /\ BumpBy(6, Cardinality(changed))
  /\ IF e.norm = 1 THEN Bump(7) ELSE TRUE
  /\ IF e.layers > 1 THEN Bump(8) ELSE TRUE
  /\ BumpBy(9, Cardinality({i \in changed : Stored(e, i)[1] # Orig(e, i)[1]}))       \* blank characters replaced
  \* ---- property layer
  /\ Check(e.osize = e.size /\ e.dims[1] = e.dims[2], "C12", "SameSize", l, [size |-> e.size, osize |-> e.osize, dims |-> e.dims, family |-> e.family])
  /\ Check(e.img_eq = 1 \/ e.dims[1] # e.dims[2], "C12", "SameImage", l,
           [family |-> e.family, norm |-> e.norm, layers |-> e.layers, first_diff |-> e.first_diff,
            cell |-> IF e.first_diff # <<>> /\ e.first_diff[3] < w /\ (e.first_diff[4] * w) + e.first_diff[3] + 1 <= n
                     THEN e.cells[(e.first_diff[4] * w) + e.first_diff[3] + 1] ELSE <<>>])
  \* ---- model layer
  /\ Expect(n = w * e.size[2] /\ e.olayers = 1, "flattened-shape", l, [n |-> n, size |-> e.size, olayers |-> e.olayers])
  /\ IF ~defined THEN Drift("cell-outside-font-table", l, [doc |-> e.doc])
     ELSE
       /\ IF badScan = {} THEN TRUE
          ELSE LET i == MinOfSet(badScan) IN
               Drift("scan", l, [at |-> cellOf(i), prev |-> prevOf(i), orig |-> Orig(e, i), stored |-> Stored(e, i),
                                 model |-> Rewrite(prevOf(i), Orig(e, i), fonts, e.norm), n |-> Cardinality(badScan)])
       /\ IF badAllowed = {} THEN TRUE
          ELSE LET i == MinOfSet(badAllowed) IN Drift("change-not-allowed", l, [at |-> cellOf(i), orig |-> Orig(e, i), stored |-> Stored(e, i), n |-> Cardinality(badAllowed)])
       /\ IF badShown = {} THEN TRUE
          ELSE LET i == MinOfSet(badShown) IN Drift("shown", l, [at |-> cellOf(i), stored |-> Stored(e, i), shown |-> ShownC(e, i)])
       /\ IF (differ = {}) = (e.img_eq = 1) THEN TRUE
          ELSE Drift("render-model", l, [img_eq |-> e.img_eq, model_differs |-> Cardinality(differ), first_diff |-> e.first_diff])
       /\ IF e.img_eq = 0 /\ e.first_diff # <<>> /\ differ # {} /\ cellOf(MinOfSet(differ)) # <<e.first_diff[3], e.first_diff[4]>>
          THEN Drift("first-diff-cell", l, [model |-> cellOf(MinOfSet(differ)), observed |-> e.first_diff]) ELSE TRUE

Next ==
  /\ l <= Len(Rec)
  /\ LET e == Rec[l] IN
     /\ Bump(3)
     /\ CASE e.ev = "reset" -> fonts' = e.fonts /\ pal' = e.pal /\ Bump(10)
          [] e.ev = "opt" -> OptEvent(e) /\ UNCHANGED <<fonts, pal>>
          [] e.ev = "panic" -> Viol("C12", "NoPanic", l, [site |-> e.site, family |-> e.family, norm |-> e.norm]) /\ UNCHANGED <<fonts, pal>>
          [] OTHER -> Viol("TOOL", "unknown-event", l, e.ev) /\ UNCHANGED <<fonts, pal>>
  /\ l' = l + 1
Spec == Init /\ [][Next]_vars
=============================================================================
