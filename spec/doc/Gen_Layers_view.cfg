SPECIFICATION SpecGen
CONSTANTS MaxLayers = 2
          Uni = "viewr"
          Border = 0
          Ops = {"remove", "edit", "below", "insert", "translate", "move"}
          Few = TRUE
          HB <- SmallHB
INVARIANT Emit
CHECK_DEADLOCK FALSE
