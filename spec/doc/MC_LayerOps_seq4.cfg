SPECIFICATION Spec
CONSTANTS Walk = "seq"
          Unis = {}
          AlphaName = "transp"
          Depth = 4
          Few = TRUE
          HB <- SmallHB
INVARIANTS ResultKinds ErrKinds LenArith PushLaw SilentOk CurBound CurLaw Frame Only
INVARIANTS RaiseLower LowerRaise DuplicateRemove AddRemove ToggleTwice SizeSame SizeBack PropsSame PropsBack TransparentIdempotent Rotate4 AnchorIsMerge
INVARIANTS AddKeepsShown SizeSameKeepsShown HiddenEditsKeepShown MergeKeepsShown MergeRect
INVARIANTS UndoRestores RedoRestores UndoRedoNoPanic UndoRedoStacks
VIEW View
CHECK_DEADLOCK FALSE
