------------------------------ MODULE MC_Paint ------------------------------
(***************************************************************************)
(* R1 for Paint.tla: the laws of the painting helpers over the whole small  *)
(* domain (evaluated as ASSUMEs: the module has no behaviour).              *)
(***************************************************************************)
EXTENDS Paint, TLC, FiniteSets
CONSTANT N
VARIABLE x
Pts == {<<a, b>> : a \in (-N)..N, b \in (-N)..N}
MaxI(a, b) == IF a >= b THEN a ELSE b

\* ---- lines ----
LineEnds == \A f \in Pts, t \in Pts : LET p == LinePoints(f, t) IN p[1] = f /\ p[Len(p)] = t
LineConnected == \A f \in Pts, t \in Pts : LET p == LinePoints(f, t) IN
   \A i \in 1..(Len(p) - 1) : Abs(p[i + 1][1] - p[i][1]) <= 1 /\ Abs(p[i + 1][2] - p[i][2]) <= 1 /\ p[i + 1] # p[i]
LineLength == \A f \in Pts, t \in Pts : Len(LinePoints(f, t)) = MaxI(Abs(t[1] - f[1]), Abs(t[2] - f[2])) + 1
LineMonotone == \A f \in Pts, t \in Pts : LET p == LinePoints(f, t) IN
   \A i \in 1..(Len(p) - 1) : (p[i + 1][1] - p[i][1]) * Sgn(f[1], t[1]) >= 0 /\ (p[i + 1][2] - p[i][2]) * Sgn(f[2], t[2]) >= 0

\* ---- half blocks: the standard glyphs of an 8 x 16 font ----
InkOf(ch) == CASE ch = Full -> [has |-> TRUE, up |-> 64, lo |-> 64, w |-> 8, h |-> 16]
               [] ch = Top -> [has |-> TRUE, up |-> 64, lo |-> 0, w |-> 8, h |-> 16]
               [] ch = Bottom -> [has |-> TRUE, up |-> 0, lo |-> 64, w |-> 8, h |-> 16]
               [] OTHER -> [has |-> TRUE, up |-> 0, lo |-> 0, w |-> 8, h |-> 16]
Colors == 0..15
Cells == {Cell(ch, fg, bg) : ch \in {Blank, Full, Top, Bottom}, fg \in Colors, bg \in Colors}
Painted(c, top, color) == GetHalfblock(c, InkOf(c.ch), top, color, FALSE, FALSE)
\* the painted half reads back as the colour painted ...
PaintSets == \A c \in Cells, top \in BOOLEAN, color \in Colors :
   LET r == Painted(c, top, color) IN (IF top THEN Upper(r, InkOf(r.ch)) ELSE Lower(r, InkOf(r.ch))) = color
\* ... and the other half keeps its colour
PaintKeeps == \A c \in Cells, top \in BOOLEAN, color \in Colors :
   LET r == Painted(c, top, color) IN
   (IF top THEN Lower(r, InkOf(r.ch)) ELSE Upper(r, InkOf(r.ch))) = (IF top THEN Lower(c, InkOf(c.ch)) ELSE Upper(c, InkOf(c.ch)))
\* painting the same half twice is painting it once
PaintIdempotent == \A c \in Cells, top \in BOOLEAN, color \in Colors :
   Painted(Painted(c, top, color), top, color) = Painted(c, top, color)
\* the result never has a dark foreground on a bright background, nor a black foreground under a half block
Normalised == \A c \in Cells, top \in BOOLEAN, color \in Colors :
   LET r == Painted(c, top, color) IN r.ch \in {Top, Bottom} => ~(r.fg < 8 /\ r.bg >= 8) /\ (r.fg = 0 => r.bg = 0)

Init == x = 0
Next == UNCHANGED x
Spec == Init /\ [][Next]_x
=============================================================================
