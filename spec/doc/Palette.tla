------------------------------ MODULE Palette ------------------------------
(***************************************************************************)
(* Abstract model of icy_engine::Palette (src/palette_handling.rs) as an   *)
(* append-only index table.  Cells of a picture store palette *indices*,   *)
(* so the table must never renumber: C16, first half.                      *)
(*                                                                         *)
(* Functional style: the state is the sequence `colors`; every operation   *)
(* is an operator returning [colors |-> ..., ret |-> ...].  The same       *)
(* operators are used by MC_Palette (exhaustive small scope), Gen_Palette  *)
(* (behaviours exported for replay into the Rust code) and Trace_Palette   *)
(* (validation of recorded executions of the Rust code).                   *)
(***************************************************************************)
EXTENDS Naturals, Sequences, FiniteSets

\* A colour is a triple <<r, g, b>> or, when it carries a name (palette files, Color::name), a 4-tuple <<r, g, b, n>>.
\* The NAME IS NOT PART OF A COLOUR'S IDENTITY: cells store indices, and a colour that is present must resolve to its index
\* whatever name either side carries.  0-based indices as in the code.
Rgb(c) == <<c[1], c[2], c[3]>>
Get(colors, i) == IF i < Len(colors) THEN colors[i + 1] ELSE <<0, 0, 0>>   \* Palette::get_rgb: out of range = black

RECURSIVE FirstIndex(_, _, _)
FirstIndex(colors, c, i) ==            \* smallest 0-based index >= i holding c, or Len(colors)
  IF i >= Len(colors) THEN Len(colors)
  ELSE IF Rgb(colors[i + 1]) = Rgb(c) THEN i ELSE FirstIndex(colors, c, i + 1)

\* Palette::insert_color: linear search, then push
Insert(colors, c) ==
  LET k == FirstIndex(colors, c, 0) IN
  IF k < Len(colors) THEN [colors |-> colors, ret |-> k]
  ELSE [colors |-> Append(colors, c), ret |-> Len(colors)]

\* Palette::set_color_rgb: grows with black entries when needed
SetColor(colors, i, c) ==
  LET grown == IF i < Len(colors) THEN colors
               ELSE colors \o [k \in 1..(i + 1 - Len(colors)) |-> <<0, 0, 0>>]
  IN [colors |-> [grown EXCEPT ![i + 1] = c], ret |-> i]

Dos16 == << <<0,0,0>>, <<0,0,170>>, <<0,170,0>>, <<0,170,170>>, <<170,0,0>>, <<170,0,170>>, <<170,85,0>>, <<170,170,170>>,
            <<85,85,85>>, <<85,85,255>>, <<85,255,85>>, <<85,255,255>>, <<255,85,85>>, <<255,85,255>>, <<255,255,85>>, <<255,255,255>> >>

\* Palette::resize: growing first fills up to the 16 DOS colours, then pads with black
Resize(colors, n) ==
  LET filled == IF n > Len(colors) /\ Len(colors) < 16
                THEN colors \o SubSeq(Dos16, Len(colors) + 1, 16) ELSE colors
      r == IF n > Len(colors)
           THEN (IF n > Len(filled) THEN filled \o [k \in 1..(n - Len(filled)) |-> <<0, 0, 0>>] ELSE filled)
           ELSE SubSeq(colors, 1, n)
  IN [colors |-> r, ret |-> n]

Clear(colors) == [colors |-> <<>>, ret |-> 0]

\* ----------------------------------------------------------------------
\* The property (C16, first half), as relations between the palette before
\* an insert, the inserted colour, the returned index and the palette after.
\* These are what the trace module evaluates on RECORDED values.
InsertResolves(before, c, ret, after) == ret < Len(after) /\ Rgb(after[ret + 1]) = Rgb(c)
IndexStable(before, after) == Len(after) >= Len(before) /\ \A i \in 1..Len(before) : after[i] = before[i]
InsertIdempotent(before, c, ret, after) ==
  (\E i \in 1..Len(before) : Rgb(before[i]) = Rgb(c)) => (Len(after) = Len(before) /\ ret < Len(before) /\ Rgb(before[ret + 1]) = Rgb(c))
InsertOk(before, c, ret, after) ==
  InsertResolves(before, c, ret, after) /\ IndexStable(before, after) /\ InsertIdempotent(before, c, ret, after)

\* 6-bit VGA palette codec used by XBin / IDF / ADF
Expand6(v) == ((v * 4) % 256) + (v \div 16)          \* v<<2 | v>>4 for v in 0..63
Reduce6(c) == c \div 4                           \* c>>2
=============================================================================
