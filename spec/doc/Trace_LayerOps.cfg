SPECIFICATION Spec
CONSTANT HB <- TraceHB
POSTCONDITION PostL
CHECK_DEADLOCK FALSE
