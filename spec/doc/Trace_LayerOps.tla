--------------------------- MODULE Trace_LayerOps ---------------------------
(***************************************************************************)
(* Validates recorded executions of the editor's layer operations on the    *)
(* real icy_engine::editor::EditState against LayerOps.tla.                 *)
(* Events (harness/src/layerops.rs):                                        *)
(*   env   {w, h, bits, rot}   first event of a file: the tables the model  *)
(*                             treats as uninterpreted - set pixels in the  *)
(*                             upper / lower half of every glyph of the     *)
(*                             default font (make_solid_color), the glyph   *)
(*                             map of rotate_layer as pairs <<from, to>> -  *)
(*                             probed through the public API                *)
(*   reset {case, src, d, ul}  a fresh EditState: d = the document as the   *)
(*                             public API shows it (buffer size, per layer  *)
(*                             size, offset, preview offset, flags, mode,   *)
(*                             role, title class, colour, the stored cells  *)
(*                             in canonical form; the current layer as      *)
(*                             get_current_layer reports it),               *)
(*                             ul = undo_stack_len                          *)
(*   op    {o, r, d, ul, v[, site, msg]}  one public call (o = [op, a, p]), *)
(*                             "undo" or "redo": r = "ok" | "err" | "panic",*)
(*                             the document and the undo length afterwards  *)
(*   reset and op carry v = what Buffer::get_char shows at x = -1 .. bw,    *)
(*   y = -1 .. bh: compared with Shown of the RECORDED document (drift      *)
(*   "shown"), so that the laws MC_LayerOps proves about Shown speak about  *)
(*   the engine's get_char                                                  *)
(*                                                                         *)
(* EVERYTHING here is the model layer (Expect -> drift): none of the listed  *)
(* properties says what a layer operation means; C08's own check            *)
(* (Trace_Undo) decides whether undo restores the document.  An engine      *)
(* panic that the model predicts is fine, one it does not predict is drift  *)
(* "result:<op>" with the site.  After every event the recorded document is *)
(* adopted, so one disagreement does not hide the next.                     *)
(* The model keeps what the API cannot show: the raw current-layer field    *)
(* (kept while it explains the shown one) and the undo / redo records (kept *)
(* while the recorded undo length is explained).                            *)
(* Registers: 4 cases, 5 calls, 6 documents compared, 7 engine panics,      *)
(* 8 bit mask of the operations compared at least once (bit k = k-th name   *)
(* of OpOrder), 9 panics predicted by the model, 10 calls that returned Err *)
(* (predicted), 11 undo / redo steps compared, 12 calls made while the      *)
(* current-layer field pointed past the stack, 13 views compared with Shown *)
(* (PostL prints the report: TraceLib's Post stops at register 12).         *)
(***************************************************************************)
EXTENDS LayerOps, TraceLib
VARIABLES l, td, us, rs, base, live
vars == <<l, td, us, rs, base, live>>

TraceHB == [w |-> Rec[1].w, h |-> Rec[1].h, bits |-> Rec[1].bits]
RotPairs == Rec[1].rot
RotMap == [c \in {RotPairs[i][1] : i \in 1..Len(RotPairs)} |-> RotPairs[CHOOSE i \in 1..Len(RotPairs) : RotPairs[i][1] = c][2]]

OpOrder == <<"add_new_layer", "remove_layer", "raise_layer", "lower_layer", "duplicate_layer", "clear_layer", "anchor_layer",
             "add_floating_layer", "merge_layer_down", "toggle_layer_visibility", "move_layer", "set_layer_size", "rotate_layer",
             "make_layer_transparent", "update_layer_properties", "set_current_layer", "undo", "redo">>
OpBit(n) == 2 ^ ((CHOOSE i \in 1..Len(OpOrder) : OpOrder[i] = n) - 1)
Mark(n) == IF (TLCGet(8) \div OpBit(n)) % 2 = 0 THEN TLCSet(8, TLCGet(8) + OpBit(n)) ELSE TRUE
Known == {OpOrder[i] : i \in 1..Len(OpOrder)}

EmptyDoc == [bw |-> 0, bh |-> 0, cur |-> 0, layers |-> <<>>]
Init == l = 1 /\ td = EmptyDoc /\ us = <<>> /\ rs = <<>> /\ base = 0 /\ live = FALSE /\ InitRegs

Obs(d) == [d EXCEPT !.cur = ShownCur(d)]                    \* what the API shows of a document
Check13(bad, e) ==
  IF bad = {} THEN TRUE
  ELSE LET p == CHOOSE q \in bad : TRUE IN
       Drift("shown", l, [n |-> Cardinality(bad), p |-> p, model |-> Shown(e.d, p), engine |-> e.v[p[2] + 2][p[1] + 2], layers |-> Len(e.d.layers)])
\* the recorded view against Shown of the recorded document ("invisible results are compared as invisible only": both are <<>> here)
ViewBad(d, v) == {p \in (-1..(Len(v[1]) - 2)) \X (-1..(Len(v) - 2)) : Shown(d, p) # v[p[2] + 2][p[1] + 2]}
ViewCheck(e) ==
  IF e.v = <<>> THEN TRUE
  ELSE Bump(13) /\ Check13(ViewBad(e.d, e.v), e)

\* where two documents differ (evaluated only when they do)
Fields == <<"w", "h", "ox", "oy", "pv", "vis", "lock", "pl", "alpha", "al", "mode", "role", "title", "col", "g">>
LayerDiff(a, b) ==
  LET f == Fields[CHOOSE i \in 1..Len(Fields) : a[Fields[i]] # b[Fields[i]]] IN [field |-> f, model |-> a[f], engine |-> b[f]]
DocDiff(a, b) ==
  IF a.bw # b.bw \/ a.bh # b.bh THEN [what |-> "buffer-size", model |-> <<a.bw, a.bh>>, engine |-> <<b.bw, b.bh>>]
  ELSE IF Len(a.layers) # Len(b.layers) THEN [what |-> "layer-count", model |-> Len(a.layers), engine |-> Len(b.layers)]
  ELSE IF a.layers = b.layers THEN [what |-> "current-layer", model |-> a.cur, engine |-> b.cur]
  ELSE LET i == CHOOSE i \in 1..Len(a.layers) : a.layers[i] # b.layers[i] IN [layer |-> i - 1, diff |-> LayerDiff(a.layers[i], b.layers[i])]

\* m = what the model says about this call (operator argument: evaluated once)
Judge(e, m) ==
  LET op == e.o.op
      same == m.r = e.r
      docok == same /\ e.r # "panic" /\ Obs(m.s.d) = e.d
      lenok == e.ul = base + Len(m.s.us)
      info == [op |-> op, a |-> e.o.a, cur |-> td.cur, layers |-> Len(td.layers)] IN
  /\ Bump(5)
  /\ (IF td.cur >= Len(td.layers) /\ td.layers # <<>> THEN Bump(12) ELSE TRUE)
  /\ (IF e.r = "panic" THEN Bump(7) ELSE TRUE)
  /\ (IF e.r = "panic" /\ m.r = "panic" THEN Bump(9) ELSE TRUE)
  /\ (IF e.r = "err" /\ m.r = "err" THEN Bump(10) ELSE TRUE)
  /\ Expect(same, "result:" \o op, l,
            [op |-> op, a |-> e.o.a, cur |-> td.cur, layers |-> Len(td.layers), model |-> m.r, engine |-> e.r,
             site |-> IF Has(e, "site") THEN e.site ELSE "", msg |-> IF Has(e, "msg") THEN e.msg ELSE ""])
  /\ (IF same /\ e.r # "panic"
      THEN /\ Bump(6) /\ Mark(op)
           /\ (IF op \in {"undo", "redo"} THEN Bump(11) ELSE TRUE)
           /\ Expect(Obs(m.s.d) = e.d, "document:" \o op, l, [call |-> info, r |-> e.r, diff |-> DocDiff(Obs(m.s.d), e.d)])
           /\ Expect(lenok, "undo-len:" \o op, l, [call |-> info, r |-> e.r, model |-> base + Len(m.s.us), engine |-> e.ul])
      ELSE TRUE)
  \* adopt what the engine shows; the raw current-layer field is not observable: keep the model's while it explains the shown one
  /\ td' = IF docok THEN m.s.d
           ELSE IF ShownCur([e.d EXCEPT !.cur = m.s.d.cur]) = e.d.cur THEN [e.d EXCEPT !.cur = m.s.d.cur] ELSE e.d
  /\ us' = IF same /\ lenok THEN m.s.us ELSE <<>>
  /\ rs' = IF same /\ lenok THEN m.s.rs ELSE <<>>
  /\ base' = IF same /\ lenok THEN base ELSE e.ul
  /\ live' = (e.r # "panic")                          \* after a panic the rest of the case is not driven
  /\ (IF e.r # "panic" THEN ViewCheck(e) ELSE TRUE)

Next ==
  /\ l <= Len(Rec)
  /\ LET e == Rec[l] IN
     /\ Bump(3)
     /\ CASE e.ev = "env" -> UNCHANGED <<td, us, rs, base, live>>
          [] e.ev = "reset" -> Bump(4) /\ td' = e.d /\ us' = <<>> /\ rs' = <<>> /\ base' = e.ul /\ live' = TRUE /\ ViewCheck(e)
          [] e.ev = "op" /\ live /\ e.o.op \in Known -> Judge(e, Call([d |-> td, us |-> us, rs |-> rs], e.o, RotMap))
          [] e.ev = "op" /\ e.o.op \in Known -> UNCHANGED <<td, us, rs, base, live>>
          [] OTHER -> Viol("TOOL", "unknown-event", l, e.ev) /\ UNCHANGED <<td, us, rs, base, live>>
  /\ l' = l + 1
Spec == Init /\ [][Next]_vars
PostL ==
  /\ PrintT(<<"REPORT", ToJson([consumed |-> TLCGet("stats").diameter - 1, total |-> Len(Rec), viol |-> TLCGet(1), drift |-> TLCGet(2), steps |-> TLCGet(3),
                                 r4 |-> TLCGet(4), r5 |-> TLCGet(5), r6 |-> TLCGet(6), r7 |-> TLCGet(7), r8 |-> TLCGet(8), r9 |-> TLCGet(9),
                                 r10 |-> TLCGet(10), r11 |-> TLCGet(11), r12 |-> TLCGet(12), r13 |-> TLCGet(13)])>>)
  /\ TLCGet("stats").diameter - 1 = Len(Rec)
=============================================================================
