------------------------------ MODULE MC_Links ------------------------------
EXTENDS Links, TLC
CONSTANTS MaxW, MaxSize
VARIABLE x
Ws == 1..MaxW
Grid(w) == {<<a, b>> : a \in 0..(w - 1), b \in 0..3}
\* a link that stays on its row: the predicate is exactly the walk (on positions of the grid)
OneRowAgrees == \A w \in Ws : \A from \in Grid(w) : \A size \in 0..MaxSize : from[1] + size <= w =>
   \A pos \in Grid(w) : InRangeCode(pos, from, size, w) = (pos \in Covered(from, size, w))
\* the predicate never reports a cell before the link's start
NeverBefore == \A w \in Ws : \A from \in Grid(w) : \A size \in 0..MaxSize : \A pos \in Grid(w) :
   (pos[2] < from[2] \/ (pos[2] = from[2] /\ pos[1] < from[1])) => ~InRangeCode(pos, from, size, w)
\* WrappedRangeMiss, pinned: the smallest wrapping link whose continuation cell is reported as outside
WrapMissWitness == ~InRangeCode(<<0, 1>>, <<1, 0>>, 2, 2) /\ <<0, 1>> \in Covered(<<1, 0>>, 2, 2)
\* the walk itself: consecutive cells are neighbours in reading order, the first is the start
WalkShape == \A w \in Ws : \A from \in Grid(w) : \A size \in 1..MaxSize : LET p == Walk(from, size, w) IN
   p[1] = from /\ \A i \in 1..(size - 1) : (p[i + 1] = <<p[i][1] + 1, p[i][2]>>) \/ (p[i][1] = w - 1 /\ p[i + 1] = <<0, p[i][2] + 1>>)
FixedAgrees == \A w \in Ws : \A from \in Grid(w) : \A size \in 0..MaxSize : \A pos \in Grid(w) :
   InRangeFixed(pos, from, size, w) = (pos \in Covered(from, size, w))
Init == x = 0
Next == UNCHANGED x
Spec == Init /\ [][Next]_x
=============================================================================
