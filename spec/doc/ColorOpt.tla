------------------------------ MODULE ColorOpt ------------------------------
(***************************************************************************)
(* The save-time colour optimiser of icy_engine (C12) and the reference     *)
(* renderer it must not disturb.                                            *)
(*                                                                         *)
(* Property (properties.jsonl, C12): "For every document, the buffer        *)
(* produced by the save-time colour optimiser renders, pixel for pixel, to  *)
(* the same RGBA image as the original composited document, with and        *)
(* without whitespace normalisation, and has the same size.  Only invisible *)
(* differences (foreground of blank glyphs, background of solid glyphs,      *)
(* which blank character is used) may change."                              *)
(*                                                                         *)
(* Model.  A document is flattened (compositing, see Layers.tla) into one   *)
(* opaque layer of cells, which the optimiser scans row by row, left to     *)
(* right, CARRYING the attribute it wrote for the previous cell:            *)
(*    - a glyph without any set pixel takes the carried foreground (and,    *)
(*      with whitespace normalisation, becomes character 32 if the font has *)
(*      one),                                                               *)
(*    - a glyph with every pixel set takes the carried background,          *)
(*    - any other glyph is left alone.                                      *)
(* The safety condition is not about the scan but about each single         *)
(* rewrite: Pixel(cell) = Pixel(rewritten cell) for every pixel of the cell *)
(* box, under the colour rule of the reference renderer                     *)
(* (Buffer::render_to_rgba: bold + low foreground = bright; the cell box is *)
(* the size of font 0; a glyph of another font is drawn clipped to          *)
(* min(its size, box) and the rest of the box is left untouched).           *)
(*                                                                         *)
(* Data.  A cell is <<ch, fg, bg, attr, font>>; attr bit 0 = bold, bit 15 = *)
(* invisible.  A colour is a palette index (>= 0) or a directly encoded RGB *)
(* value c < 0 standing for the 32-bit value with bit 31 set:               *)
(* rgb = -(c + 1) mod 2^24.  A font is [w, h, g] where g[ch + 1] is the     *)
(* glyph: a sequence of row bytes (bit 7 = leftmost pixel), <<>> = no such  *)
(* glyph.  A font table maps slot names ("0", "1", ..) to fonts.            *)
(***************************************************************************)
EXTENDS Integers, Sequences, FiniteSets, TLC

MinOfSet(set) == CHOOSE m \in set : \A x \in set : m <= x
Min2(a, b) == IF a < b THEN a ELSE b
Pow2 == <<1, 2, 4, 8, 16, 32, 64, 128>>
BitAt(row, px) == IF px > 7 THEN 0 ELSE (row \div Pow2[8 - px]) % 2        \* glyph.data[cy] & (128 >> cx)
PopCount == [b \in 0..255 |-> BitAt(b, 0) + BitAt(b, 1) + BitAt(b, 2) + BitAt(b, 3) + BitAt(b, 4) + BitAt(b, 5) + BitAt(b, 6) + BitAt(b, 7)]
RECURSIVE SumRows(_, _)
SumRows(g, i) == IF i > Len(g) THEN 0 ELSE PopCount[g[i]] + SumRows(g, i + 1)
Ones(g) == SumRows(g, 1)                                              \* number of set pixels of a glyph

BOLD == 1
INVISIBLE == 32768
IsBold(c) == c[4] % 2 = 1
IsVisible(c) == c[4] < INVISIBLE
DefaultCell == <<32, 7, 0, 0, 0>>

\* ---------------------------------------------------------------- fonts
Slot(n) == ToString(n)
HasFont(fonts, n) == Slot(n) \in DOMAIN fonts
FontOf(fonts, c) == fonts[Slot(c[5])]
HasGlyph(f, ch) == ch >= 0 /\ ch < Len(f.g) /\ f.g[ch + 1] # <<>>
GlyphOf(fonts, c) == IF HasGlyph(FontOf(fonts, c), c[1]) THEN FontOf(fonts, c).g[c[1] + 1] ELSE <<>>
\* the optimiser (and the renderer) are defined on cells whose font page has a font; the optimiser also needs the glyph
Defined(fonts, c) == HasFont(fonts, c[5]) /\ HasGlyph(FontOf(fonts, c), c[1])

\* ---------------------------------------------------------------- reference renderer, one pixel
EffFg(c) == IF IsBold(c) /\ c[2] >= 0 /\ c[2] < 8 THEN c[2] + 8 ELSE c[2]
Rgb(col, pal) ==
  IF col < 0 THEN LET v == (0 - (col + 1)) % 16777216 IN <<v \div 65536, (v \div 256) % 256, v % 256>>
  ELSE IF col < Len(pal) THEN pal[col + 1] ELSE <<0, 0, 0>>
NotDrawn == <<0, 0, 0, 0>>
Pixel(c, px, py, fonts, pal) ==
  LET f0 == fonts[Slot(0)]
      f == FontOf(fonts, c)
      g == GlyphOf(fonts, c) IN
  IF g = <<>> \/ px >= Min2(f.w, f0.w) \/ py >= Min2(f.h, f0.h) THEN NotDrawn
  ELSE IF BitAt(g[py + 1], px) = 1 THEN Rgb(EffFg(c), pal) \o <<255>> ELSE Rgb(c[3], pal) \o <<255>>
RenderEq(a, b, fonts, pal) ==
  a = b \/ LET f0 == fonts[Slot(0)] IN \A py \in 0..(f0.h - 1) : \A px \in 0..(f0.w - 1) : Pixel(a, px, py, fonts, pal) = Pixel(b, px, py, fonts, pal)

\* ---------------------------------------------------------------- the optimiser
Shape(f, g) == LET n == Ones(g) IN IF n = 0 THEN "ws" ELSE IF n = f.w * f.h THEN "block" ELSE "mixed"   \* get_shape
\* one step of the scan: prev = <<fg, bg>> written for the previous cell (<<7, 0>> at the start of a layer)
Rewrite(prev, c, fonts, norm) ==
  LET f == FontOf(fonts, c)
      sh == Shape(f, GlyphOf(fonts, c)) IN
  IF sh = "ws" THEN <<IF norm = 1 /\ HasGlyph(f, 32) THEN 32 ELSE c[1], prev[1], c[3], c[4], c[5]>>
  ELSE IF sh = "block" THEN <<c[1], c[2], prev[2], c[4], c[5]>>
  ELSE c
Carry(r) == <<r[2], r[3]>>
RECURSIVE ScanFrom(_, _, _, _, _)
ScanFrom(cells, i, prev, fonts, norm) ==
  IF i > Len(cells) THEN <<>>
  ELSE LET r == Rewrite(prev, cells[i], fonts, norm) IN <<r>> \o ScanFrom(cells, i + 1, Carry(r), fonts, norm)
Optimize(cells, fonts, norm) == ScanFrom(cells, 1, <<7, 0>>, fonts, norm)      \* cells in row-major order

\* what the flattened, opaque, single layer shows for a stored cell (Buffer::get_char on the optimised buffer)
ShownFlat(c) == IF IsVisible(c) THEN c ELSE DefaultCell

\* ---------------------------------------------------------------- the property, per cell
\* "Only invisible differences may change": the fields the optimiser may touch and when
IsBlank(fonts, c) == Ones(GlyphOf(fonts, c)) = 0
IsSolid(fonts, c) == LET f == FontOf(fonts, c) IN Ones(GlyphOf(fonts, c)) = f.w * f.h
Allowed(o, r, fonts) ==
  /\ r[4] = o[4] /\ r[5] = o[5]
  /\ r[1] # o[1] => IsBlank(fonts, o) /\ Defined(fonts, r) /\ IsBlank(fonts, r)
  /\ r[2] # o[2] => IsBlank(fonts, o)
  /\ r[3] # o[3] => IsSolid(fonts, o)
\* assumption about a font table under which whitespace normalisation is safe: character 32, where present, is blank
SpaceIsBlank(fonts) == \A s \in DOMAIN fonts : HasGlyph(fonts[s], 32) => Ones(fonts[s].g[33]) = 0
PixelsPreserved(prev, c, fonts, pal, norm) == RenderEq(c, ShownFlat(Rewrite(prev, c, fonts, norm)), fonts, pal)
=============================================================================
