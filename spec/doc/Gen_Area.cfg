SPECIFICATION GenSpec
CONSTANTS MaxW = 3
          MaxH = 3
          MinCells = 1
          MaxCells = 4
          AlphaName = "plain"
          OpSet = "all"
          Prot = FALSE
          Quirks <- EngineQuirks
INVARIANT Emit
VIEW GenView
CHECK_DEADLOCK FALSE
