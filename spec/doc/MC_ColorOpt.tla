----------------------------- MODULE MC_ColorOpt -----------------------------
(* R1: every single rewrite of the optimiser preserves every pixel, for every carried attribute, every cell attribute *)
(*     class and every glyph shape, on a scaled-down font table (2-pixel-wide fonts):                                 *)
(*       font 0: 2x2 (the cell box)  - all 16 bitmaps + a second blank at character 32                                *)
(*       font 1: 2x1 (smaller than the box: "8x8 font in an 8x16 box", all set in its own size but not in the box)    *)
(*       font 2: 2x3 (taller than the box: "8x16 font in an 8x8 box", rows below the box are never drawn)             *)
(*       font 3: 2x2 without a character 32 (normalisation must keep the character)                                   *)
(*     The scan is the state machine: state = carried colours, input = one cell.                                      *)
(* R2: one witness per <carried colours, glyph class, cell colours, bold> for the driver (Gen_ColorOpt.cfg).          *)
EXTENDS ColorOpt, Json
VARIABLES prev, norm
vars == <<prev, norm>>

Rows2 == {0, 64, 128, 192}                                  \* a row of a 2-pixel-wide glyph
\* all bitmaps of height h as a sequence (index = bitmap number + 1)
RowSeq == <<0, 64, 128, 192>>
RECURSIVE Bitmap(_, _)
Bitmap(n, h) == IF h = 0 THEN <<>> ELSE <<RowSeq[(n % 4) + 1]>> \o Bitmap(n \div 4, h - 1)
Pow4(h) == IF h = 1 THEN 4 ELSE IF h = 2 THEN 16 ELSE 64
\* glyph table: characters 0..31 = bitmaps 0..31, character 32 = blank (when withSpace), characters 33.. = bitmaps 32..
Glyphs(h, withSpace) ==
  LET n == Pow4(h) IN
  IF ~withSpace THEN [i \in 1..n |-> Bitmap(i - 1, h)]
  ELSE IF n <= 32 THEN [i \in 1..33 |-> IF i <= n THEN Bitmap(i - 1, h) ELSE IF i = 33 THEN Bitmap(0, h) ELSE <<>>]
  ELSE [i \in 1..(n + 1) |-> IF i <= 32 THEN Bitmap(i - 1, h) ELSE IF i = 33 THEN Bitmap(0, h) ELSE Bitmap(i - 2, h)]
Fonts == ("0" :> [w |-> 2, h |-> 2, g |-> Glyphs(2, TRUE)]) @@ ("1" :> [w |-> 2, h |-> 1, g |-> Glyphs(1, TRUE)])
         @@ ("2" :> [w |-> 2, h |-> 3, g |-> Glyphs(3, TRUE)]) @@ ("3" :> [w |-> 2, h |-> 2, g |-> Glyphs(2, FALSE)])
\* palette: 0 black, 1 blue, 2..8 unused greys, 9 bright blue, .. 16 an extended entry; -66052 = direct RGB 1,2,3
Pal == [i \in 1..17 |-> IF i = 2 THEN <<0, 0, 170>> ELSE IF i = 10 THEN <<85, 85, 255>> ELSE IF i = 17 THEN <<9, 8, 7>> ELSE <<i - 1, i - 1, i - 1>>]
Colors == {0, 1, 9, 16, -66052}
Chars(s) == {ch \in 0..(Len(Fonts[s].g) - 1) : Fonts[s].g[ch + 1] # <<>>}
Cells == UNION {{<<ch, fg, bg, at, n>> : ch \in Chars(Slot(n)), fg \in Colors, bg \in Colors, at \in {0, BOLD}} : n \in 0..3}

Init == prev = <<7, 0>> /\ norm \in 0..1
Next == /\ \E c \in Cells : prev' = Carry(Rewrite(prev, c, Fonts, norm))
        /\ UNCHANGED norm
Spec == Init /\ [][Next]_vars

\* R1 invariants: in every reachable scan state (carried colours), for EVERY next cell
TableOk == SpaceIsBlank(Fonts) /\ \A c \in Cells : Defined(Fonts, c)
PixelsOk == \A c \in Cells : PixelsPreserved(prev, c, Fonts, Pal, norm)
OnlyAllowed == \A c \in Cells : Allowed(c, Rewrite(prev, c, Fonts, norm), Fonts)
\* the rule is not idle: a blank glyph really takes the carried foreground, a solid one the carried background
Takes == \A c \in Cells : LET r == Rewrite(prev, c, Fonts, norm) IN
           /\ IsBlank(Fonts, c) => r[2] = prev[1] /\ (norm = 1 /\ c[5] # 3 => r[1] = 32)
           /\ IsSolid(Fonts, c) => r[3] = prev[2]

\* R2: classes for the driver: one witness per <carried colours, glyph class of font 0, cell colours, bold>
GClass(c) ==
  LET f == FontOf(Fonts, c)
      n == Ones(GlyphOf(Fonts, c)) IN
  IF n = 0 THEN (IF c[1] = 32 THEN "blank32" ELSE "blank")
  ELSE IF n = f.w * f.h THEN "solid" ELSE IF n = 1 THEN "nearblank" ELSE IF n = (f.w * f.h) - 1 THEN "nearsolid" ELSE "mixed"
Witnesses == {[prev |-> prev, g |-> GClass(c), fg |-> c[2], bg |-> c[3], bold |-> c[4] % 2] : c \in {x \in Cells : x[5] = 0}}
Emit == norm = 0 => \A w \in Witnesses : PrintT(<<"WITNESS", ToJson(w)>>)
=============================================================================
