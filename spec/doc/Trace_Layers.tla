---------------------------- MODULE Trace_Layers ----------------------------
(* Validates recorded compositing results of the real engine (Buffer::get_char) against the stacking laws (C13).   *)
(* Events (harness/src/layers.rs):                                                                                   *)
(*   font{w,h,bits}   first line of every file: set pixels in the upper/lower half of each glyph of font page 0      *)
(*   reset{case,src}  start of a case                                                                                *)
(*   law{tr,A,B,box,gA,gB}  stack A, transformation, B = Apply(tr, A), observed grids (rows y0..y1 of cells x0..x1)  *)
(*   panic{..,site}   Buffer::get_char (or building the document) panicked                                           *)
(* Property layer: every claim <<law, pA, pB>> of Layers!Claims - computed from the two stacks - must hold between    *)
(* the two OBSERVED grids.  No model of compositing is involved.                                                      *)
(* Model layer: each observed grid equals Shown(stack, p) of Layers.tla at every position (drift only).               *)
EXTENDS Layers, TraceLib
VARIABLES l
vars == <<l>>

TraceHB == [w |-> Rec[1].w, h |-> Rec[1].h, bits |-> Rec[1].bits]
LawNames == <<"L1", "L2", "L3", "L4", "L5", "L6", "L7">>
OpNames == {"remove", "edit", "below", "insert", "translate", "move"}

Init == l = 1 /\ InitRegs

ModeOf(S, k) == IF k \in 1..Len(S) THEN S[k].m ELSE -1
LawEvent(e) ==
  LET A == e.A
      B == e.B
      tr == e.tr
      box == e.box
      ObsA(p) == e.gA[p[2] - box[2] + 1][p[1] - box[1] + 1]
      ObsB(p) == e.gB[p[2] - box[2] + 1][p[1] - box[1] + 1]
      need == BBox(A, B, 0)
      wf == /\ tr.op \in OpNames
            /\ Pre(tr, A)
            /\ Apply(tr, A) = B
            /\ box[1] <= need[1] /\ box[2] <= need[2] /\ box[3] >= need[3] /\ box[4] >= need[4]
            /\ Len(e.gA) = box[4] - box[2] + 1 /\ Len(e.gB) = Len(e.gA)
            /\ \A y \in 1..Len(e.gA) : Len(e.gA[y]) = box[3] - box[1] + 1 /\ Len(e.gB[y]) = Len(e.gA[y])
  IN
  IF ~wf THEN Viol("TOOL", "malformed-law-event", l, [op |-> tr.op, k |-> tr.k])
  ELSE
    LET claims == Claims(tr, A, B, box)
        fails == {c \in claims : ~CellEq(ObsA(c[2]), ObsB(c[3]))}
        P == BoxPos(box)
        badA == {p \in P : ~CellEq(Shown(A, p), ObsA(p))}
        badB == {p \in P : ~CellEq(Shown(B, p), ObsB(p))}
        \* mode of the layer the transformation is about (inserted layer for insert), for the finding key
        mk == IF tr.op = "insert" THEN tr.layer.m ELSE ModeOf(A, tr.k)
    IN
    /\ \A i \in 1..7 :
         LET mine == {c \in claims : c[1] = LawNames[i]}
             bad == {c \in fails : c[1] = LawNames[i]} IN
         /\ IF \E c \in mine : Vis(ObsA(c[2])) \/ Vis(ObsB(c[3])) THEN Bump(3 + i) ELSE TRUE
         /\ IF bad = {} THEN TRUE
            ELSE LET c == CHOOSE x \in bad : \A z \in bad : <<x[3][2], x[3][1]>> = <<z[3][2], z[3][1]>> \/ x[3][2] < z[3][2] \/ (x[3][2] = z[3][2] /\ x[3][1] < z[3][1]) IN
                 Viol("C13", LawNames[i], l, [op |-> tr.op, k |-> tr.k, d |-> tr.d, mode |-> mk, n |-> Cardinality(bad),
                                               pA |-> c[2], pB |-> c[3], obsA |-> ObsA(c[2]), obsB |-> ObsB(c[3])])
    \* the same move done through the API on document A (set_offset / drag with a preview offset / drag put back)
    /\ IF "gM" \in DOMAIN e
       THEN Check(e.gM = (IF e.exp = "B" THEN e.gB ELSE e.gA), "C13", "MoveThroughApi", l, [op |-> tr.op, k |-> tr.k, d |-> tr.d, route |-> e.route])
       ELSE TRUE
    \* the editor's overlay above layer k - 1 against the same cells as a real alpha layer inserted at k (gO = <<with overlay, with layer, k>>)
    \* "inserting an empty alpha layer anywhere in the stack never changes any displayed cell" - also when the empty layer was made
    \* the way a paste makes it (clipboard record of invisible cells)
    /\ IF "gP" \in DOMAIN e
       THEN Check(e.gP[1] = e.gA, "C13", "EmptyPasteInvisible", l, [k |-> e.gP[2]])
       ELSE TRUE
    /\ IF "gO" \in DOMAIN e
       THEN Check(e.gO[1] = e.gO[2], "C13", "OverlayAsLayer", l, [k |-> e.gO[3]])
       ELSE TRUE
    \* "topmost first": where the topmost visible layer covering a position is a Normal layer holding a cell without a
    \* transparent colour, that cell is what is shown (a direct reading of the statement; everything subtler is model layer)
    /\ LET TopBad(S, Obs(_)) == {p \in P : LET cov == Covering(S, p) IN
                                   cov # {} /\ LET t == MaxOf(cov) c == CellAt(S[t], p) IN S[t].m = NORMAL /\ Vis(c) /\ ~HasT(c) /\ Obs(p) # c}
           ba == TopBad(A, ObsA)
           bb == TopBad(B, ObsB) IN
       IF ba = {} /\ bb = {} THEN TRUE
       ELSE LET p == CHOOSE x \in (ba \cup bb) : TRUE IN
            Viol("C13", "TopmostCellShown", l, [op |-> tr.op, p |-> p, n |-> Cardinality(ba) + Cardinality(bb), obs |-> IF p \in ba THEN ObsA(p) ELSE ObsB(p)])
    /\ BumpBy(11, Cardinality(claims))
    /\ BumpBy(12, 2 * Cardinality(P))
    /\ IF badA = {} THEN TRUE
       ELSE LET p == CHOOSE x \in badA : TRUE IN Drift("Shown(A)", l, [p |-> p, model |-> Shown(A, p), observed |-> ObsA(p), n |-> Cardinality(badA)])
    /\ IF badB = {} THEN TRUE
       ELSE LET p == CHOOSE x \in badB : TRUE IN Drift("Shown(B)", l, [p |-> p, model |-> Shown(B, p), observed |-> ObsB(p), n |-> Cardinality(badB)])

Next ==
  /\ l <= Len(Rec)
  /\ LET e == Rec[l] IN
     /\ Bump(3)
     /\ CASE e.ev = "font" -> TRUE
          [] e.ev = "reset" -> TRUE
          [] e.ev = "law" -> LawEvent(e)
          [] e.ev = "panic" -> Viol("C13", "NoPanic", l, [op |-> e.tr.op, site |-> e.site])
          [] OTHER -> Viol("TOOL", "unknown-event", l, e.ev)
  /\ l' = l + 1
Spec == Init /\ [][Next]_vars
=============================================================================
