------------------------------- MODULE Paint --------------------------------
(***************************************************************************)
(* The editor's painting helpers (src/paint): the line rasteriser           *)
(* get_line_points and the half-block painter get_halfblock, transcribed     *)
(* case by case (every branch of the Rust is one disjunct here), so that     *)
(* TLC's evaluation of the model over the whole small domain is one          *)
(* implementation test per branch combination.                               *)
(*                                                                         *)
(* A cell is [ch, fg, bg]; colours are numbers, Transp is the transparent    *)
(* colour.  What a glyph looks like is not modelled: the trace supplies,     *)
(* per glyph code used, the ink counts of its upper and lower half and the   *)
(* font's cell size (Ink), exactly what HalfBlock::from computes from.       *)
(* Named behaviours of the code:                                            *)
(*   QuarterRule      a half counts as foreground when MORE than a quarter   *)
(*                    of the WHOLE cell's pixels are set in it               *)
(*   MissingGlyphIsBg a glyph the font does not have reads as background in  *)
(*                    both halves                                           *)
(*   BlackFgFlips     a result with foreground 0 is rewritten: blank if the  *)
(*                    background is 0 too or the glyph is the full block     *)
(*                    (FullBlackLosesBg: the background colour is kept in    *)
(*                    the attribute but no longer visible ... it is a blank  *)
(*                    ON that background, i.e. the other half's colour now   *)
(*                    fills the cell), otherwise the other half block with   *)
(*                    swapped colours                                       *)
(*   DarkOnBrightFlips foreground < 8 on background >= 8 is flipped so that  *)
(*                    the bright colour becomes the foreground               *)
(*   TransparentIsBright the transparent colour is 1 << 31, numerically a    *)
(*                    'bright' background: a dark half painted over a        *)
(*                    transparent cell comes out as the OTHER half block     *)
(*                    with a transparent FOREGROUND (same picture)           *)
(***************************************************************************)
EXTENDS Integers, Sequences

Full == 219
Top == 223
Bottom == 220
Blank == 32
Transp == -1           \* TextAttribute::TRANSPARENT_COLOR (1 << 31), as the trace writes it

Cell(ch, fg, bg) == [ch |-> ch, fg |-> fg, bg |-> bg]

\* ---- HalfBlock::from: ink = [has |-> glyph exists, up, lo |-> set pixels in the upper / lower half, w, h |-> cell size] --------
Upper(c, ink) == IF ink.has /\ ink.up > (ink.w * ink.h) \div 4 THEN c.fg ELSE c.bg      \* QuarterRule, MissingGlyphIsBg
Lower(c, ink) == IF ink.has /\ ink.lo > (ink.w * ink.h) \div 4 THEN c.fg ELSE c.bg

Flip(c, ch) == Cell(ch, c.bg, c.fg)
Optimize(c) ==
  IF c.fg = 0
  THEN IF c.bg = 0 \/ c.ch = Full THEN [c EXCEPT !.ch = Blank]                           \* BlackFgFlips
       ELSE IF c.ch = Bottom THEN Flip(c, Top)
       ELSE IF c.ch = Top THEN Flip(c, Bottom)
       ELSE c
  ELSE IF c.fg >= 0 /\ c.fg < 8 /\ (c.bg >= 8 \/ c.bg = Transp)                           \* DarkOnBrightFlips, TransparentIsBright
       THEN IF c.ch = Bottom THEN Flip(c, Top) ELSE IF c.ch = Top THEN Flip(c, Bottom) ELSE c
       ELSE c

\* cur = the cell painted over, ink = its glyph's ink, top = the half painted (pos.y even), color, tflag = the caller's
\* transparent_color flag, ctransp = cur.is_transparent()
GetHalfblock(cur, ink, top, color, tflag, ctransp) ==
  LET up == Upper(cur, ink)  lo == Lower(cur, ink)  t == ctransp /\ tflag IN
  Optimize(IF (top /\ lo = color) \/ (~top /\ up = color) THEN Cell(Full, color, 0)
           ELSE IF top THEN Cell(Top, color, IF t THEN Transp ELSE lo)
           ELSE Cell(Bottom, color, IF t THEN Transp ELSE up))

\* ---- get_line_points: the error-driven walk of the Rust, one step per recursion ------------------------------------
Abs(n) == IF n < 0 THEN -n ELSE n
Sgn(a, b) == IF a < b THEN 1 ELSE -1
RECURSIVE Walk(_, _, _, _, _, _, _, _)
Walk(cur, to, dx, dy, sx, sy, err, fuel) ==
  IF cur = to \/ fuel = 0 THEN <<cur>>
  ELSE LET stepx == err > -dx   stepy == err < dy
           e1 == IF stepx THEN err - dy ELSE err
           e2 == IF stepy THEN e1 + dx ELSE e1
           nxt == <<IF stepx THEN cur[1] + sx ELSE cur[1], IF stepy THEN cur[2] + sy ELSE cur[2]>>
       IN <<cur>> \o Walk(nxt, to, dx, dy, sx, sy, e2, fuel - 1)
LinePoints(from, to) ==
  LET dx == Abs(to[1] - from[1])  dy == Abs(to[2] - from[2])
      e0 == IF dx > dy THEN dx \div 2 ELSE -(dy \div 2)          \* Rust: (if dx > dy { dx } else { -dy }) / 2, truncating towards zero
  IN Walk(from, to, dx, dy, Sgn(from[1], to[1]), Sgn(from[2], to[2]), e0, dx + dy + 2)
=============================================================================
