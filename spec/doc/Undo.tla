-------------------------------- MODULE Undo --------------------------------
(***************************************************************************)
(* Linear undo/redo history of icy_engine::editor::EditState with nested   *)
(* atomic groups (C08).                                                    *)
(*                                                                         *)
(* Documents are OPAQUE values.  The module does not know what an editing  *)
(* operation does to the document; it specifies what the history has to    *)
(* remember so that undo/redo can restore it:                              *)
(*                                                                         *)
(*   doc     the current document                                          *)
(*   past    the undo stack, a sequence of steps                           *)
(*           [b |-> before, a |-> after, t |-> description] (top = last)   *)
(*   future  the redo stack, same records (top = first element)            *)
(*   open    the stack of open atomic groups (AtomicUndoGuard): the        *)
(*           document and the length of `past` when the group was begun    *)
(*                                                                         *)
(* A public editing operation that reports success pushes k >= 0 steps     *)
(* (k = 1 for almost all of them because they wrap themselves into an      *)
(* atomic group; k = 0 for operations that find nothing to do).  The       *)
(* documents between the steps of one operation are not observable from    *)
(* outside; in trace mode they are the constant UNK.                       *)
(*                                                                         *)
(* Functional style: the state is one record st, every critical section of *)
(* src/editor/mod.rs is one operator st -> st'.  The same operators are    *)
(* used by MC_Undo (exhaustive small scope, R1), by its generator config   *)
(* (history shapes for the Rust driver, R2) and by Trace_Undo (validation  *)
(* of recorded executions of the real EditState, R3).                      *)
(***************************************************************************)
EXTENDS Naturals, Sequences
CONSTANT UNK    \* "a document nobody recorded" (between the steps of one operation); a model value

Step(b, a, t) == [b |-> b, a |-> a, t |-> t]   \* t = description (UndoOperation::get_description), diagnostics only
InitState(d) == [doc |-> d, past |-> <<>>, future |-> <<>>, open |-> <<>>]

Top(s) == s[Len(s)]
Front(s) == SubSeq(s, 1, Len(s) - 1)

\* ---------------------------------------------------------------- editing
\* EditState::push_undo_action / push_plain_undo, called k = Len(ds) times by one successful public
\* operation that visits the documents ds[1], .., ds[k] (ds[k] = the document it leaves behind):
\* every call appends one step and clears the redo stack.
EditVia(st, ds, t) ==
  LET k == Len(ds)
      new == [i \in 1..k |-> Step(IF i = 1 THEN st.doc ELSE ds[i - 1], ds[i], t)]
  IN [st EXCEPT !.doc = ds[k], !.past = st.past \o new, !.future = <<>>]

\* a successful operation that pushes nothing and leaves the document alone.  Some of them open an atomic
\* group first (begin_atomic_undo clears the redo stack even if nothing is pushed afterwards), some return early.
Touch(st, clearsRedo) == IF clearsRedo THEN [st EXCEPT !.future = <<>>] ELSE st

\* ---------------------------------------------------------------- atomic groups
\* EditState::begin_atomic_undo: remembers the current length of the undo stack, clears the redo stack
Begin(st) == [st EXCEPT !.open = Append(st.open, [base |-> st.doc, len0 |-> Len(st.past)]), !.future = <<>>]

\* AtomicUndoGuard::end_action: drain(base_count..) and push ONE AtomicUndo holding the drained steps.
\* Undoing it runs the drained steps backwards, redoing it runs them forwards.
Fold(past, len0, doc) ==
  LET inner == SubSeq(past, len0 + 1, Len(past)) IN
  Append(SubSeq(past, 1, len0),
         IF inner = <<>> THEN Step(doc, doc, "group") ELSE Step(inner[1].b, Top(inner).a, "group"))

\* Drop of the guard: nothing happens when nothing was pushed since Begin (base_count >= len)
EndDrop(st) ==
  LET g == Top(st.open) IN
  IF Len(st.past) <= g.len0 THEN [st EXCEPT !.open = Front(st.open)]
  ELSE [st EXCEPT !.open = Front(st.open), !.past = Fold(st.past, g.len0, st.doc)]

\* AtomicUndoGuard::end(): folds unconditionally - an empty group becomes an (empty) step of its own
EndExplicit(st) ==
  LET g == Top(st.open) IN
  [st EXCEPT !.open = Front(st.open), !.past = Fold(st.past, g.len0, st.doc)]

\* ---------------------------------------------------------------- undo / redo
\* UndoState::undo: pop the top step, run it backwards, push it on the redo stack.  Empty stack: Ok, nothing.
CanUndo(st) == st.past # <<>>
CanRedo(st) == st.future # <<>>
UndoStep(st) ==
  IF ~CanUndo(st) THEN st
  ELSE LET e == Top(st.past) IN
       [st EXCEPT !.doc = e.b, !.past = Front(st.past), !.future = <<e>> \o st.future]

RedoStep(st) ==
  IF ~CanRedo(st) THEN st
  ELSE LET e == Head(st.future) IN
       [st EXCEPT !.doc = e.a, !.past = Append(st.past, e), !.future = Tail(st.future)]

\* n undo (redo) steps in a row
RECURSIVE Times(_, _, _)
Times(op, st, n) == IF n = 0 THEN st ELSE Times(op, IF op = "undo" THEN UndoStep(st) ELSE RedoStep(st), n - 1)

\* ---------------------------------------------------------------- the property (C08), as relations over
\* recorded values; these are what Trace_Undo evaluates on the digests the driver observed.
Known(d) == d # UNK
\* after an undo that popped step e the observed document is the one recorded before the step was added
UndoRestores(e, observed) == Known(e.b) => observed = e.b
\* after a redo that re-applied step e the observed document is the one recorded after the step was added
RedoRestores(e, observed) == Known(e.a) => observed = e.a
\* an operation that reports success and changed the document must have added a step (else nothing can restore it)
EditLeavesStep(before, after, k) == k = 0 => after = before
\* a new edit (one that added steps) discards the redo history
EditClearsRedo(k, canRedoAfter) == k > 0 => ~canRedoAfter

\* ---------------------------------------------------------------- structural invariants of the design
\* the stacks describe one path of documents through the current one
Chain(s) == \A i \in 1..(Len(s) - 1) : s[i].a = s[i + 1].b
Linked(st) == /\ Chain(st.past) /\ Chain(st.future)
              /\ (st.past # <<>> => Top(st.past).a = st.doc)
              /\ (st.future # <<>> => Head(st.future).b = st.doc)
GroupsNested(st) == /\ \A i \in 1..Len(st.open) : st.open[i].len0 <= Len(st.past)
                    /\ \A i \in 1..(Len(st.open) - 1) : st.open[i].len0 <= st.open[i + 1].len0
=============================================================================
