------------------------------ MODULE LayerOps ------------------------------
(***************************************************************************)
(* What the editor's LAYER operations mean (model layer of C08): the public *)
(* calls of src/editor/layer_operations.rs, the undo records they push      *)
(* (src/editor/undo_operations.rs), EditState::undo / redo and the          *)
(* current-layer handling of src/editor/mod.rs.  stamp_layer_down is in     *)
(* Area.tla.                                                                *)
(*                                                                         *)
(* A document is [bw, bh, cur, layers]: buffer size, the current-layer      *)
(* FIELD as the code stores it (0-based; it can point past the stack), and  *)
(* the stack of layers, BOTTOM FIRST.  A layer is                           *)
(*   [w, h       size (any integers: nothing validates them)                *)
(*    ox, oy     Properties::offset        pv   preview offset: <<>> or     *)
(*               <<x, y>> (Layer::get_offset prefers it)                    *)
(*    vis, lock, pl, alpha, al   is_visible, is_locked, is_position_locked, *)
(*               has_alpha_channel, is_alpha_channel_locked (0 / 1)         *)
(*    mode       0 Normal, 1 Chars, 2 Attributes                            *)
(*    role       "normal" | "preview" | "pimage" | "image"                  *)
(*    title      [b, n]: base name ("new" = the name of a new layer,        *)
(*               "pasted" = the name of a floating selection, anything else *)
(*               = a given name), wrapped n times in "<name> copy"          *)
(*    col        <<>> or <<r, g, b>> (Properties::color)                    *)
(*    g          the STORED cells: rows of cells, canonical (no trailing    *)
(*               invisible cell in a row, no trailing empty row).  The      *)
(*               storage is independent of the size: cells stored beyond    *)
(*               the size are unreadable until the size grows again]        *)
(* A cell is Inv = <<>> (attribute bit INVISIBLE) or <<ch, fg, bg, flags,   *)
(* page>> as in Area.tla; the colour T = -1 is TRANSPARENT_COLOR.           *)
(* The editor state is [d, us, rs]: document, undo stack, redo stack; the   *)
(* stacks hold RECORDS that say what the step does when it is undone /      *)
(* replayed on WHATEVER the document then is (as the code: by index).       *)
(*                                                                         *)
(* One operator per public call; each returns                               *)
(*   [r |-> "ok" | "err" | "panic", d |-> document after, push |-> number   *)
(*    of undo steps recorded, u |-> those steps, clr |-> the redo history   *)
(*    was discarded].                                                       *)
(* Indices are 0-based as in the code; UMax stands for usize::MAX.          *)
(* The glyph rotation table of rotate_layer and the half-block table of the *)
(* default font (make_solid_color) are uninterpreted maps supplied from     *)
(* outside (by the trace: probed through the public API; by MC_LayerOps:    *)
(* small abstract ones).                                                    *)
(*                                                                         *)
(* What the code does differently from what one might expect is modelled    *)
(* AS IT IS and named (reproducers in the builder's REPORT.md):             *)
(*   ClearLayerMovesCurrent   clear_layer(k) sets current_layer to k + 1;   *)
(*                            for the top layer that is past the stack      *)
(*   RawCurrentIndex          move_layer, rotate_layer and the undo step of *)
(*                            make_layer_transparent use the raw field, the *)
(*                            rest of the same calls the clamped index: with *)
(*                            the field past the stack rotate_layer is an    *)
(*                            error, move_layer an error that has already    *)
(*                            dropped the preview offset of the top layer    *)
(*                            (MoveErrClearsPreview).  make_layer_transparent *)
(*                            used to record the raw field too, a step that  *)
(*                            could not be undone (TransparentUndoFails: a   *)
(*                            violation of C08, repaired in /repo 464c2b3;   *)
(*                            the model follows the repaired code)           *)
(*   RemoveKeepsIndex         remove_layer only clamps the field: removing a *)
(*                            layer below the current one changes WHICH      *)
(*                            layer is current                               *)
(*   LowerBottomIsOk          lower_layer(0) is Ok without doing anything,   *)
(*                            also on an empty stack                         *)
(*   IndexPlusOneOverflow     add_new_layer / raise_layer(usize::MAX) panic  *)
(*                            (`layer + 1`; dev profile: overflow checks)    *)
(*   PropertiesNoRangeCheck   update_layer_properties(k >= len) panics       *)
(*   PropertiesCarryOffset    Properties holds the offset: update_layer_     *)
(*                            properties moves a position-locked layer       *)
(*   MergeChecksCurrentRole   merge_layer_down(k) looks at the role of the   *)
(*                            CURRENT layer (PasteImage: Ok, nothing done),  *)
(*                            not of layer k                                 *)
(*   MergeThroughBaseFlags    the merged layer is a clone of the LOWER layer *)
(*                            filled through Layer::set_char: if the lower   *)
(*                            layer is locked, hidden or alpha-locked every  *)
(*                            write is refused and BOTH layers' cells are    *)
(*                            lost; if it is position-locked the merged      *)
(*                            layer keeps its offset (cells left of / above  *)
(*                            it are lost)                                   *)
(*   MergeIgnoresUpperFlags   a hidden / locked upper layer is merged in     *)
(*                            like a visible one (its cells become visible)  *)
(*   MoveLockedStillPushes    move_layer on a position-locked layer records  *)
(*                            a step that does nothing                       *)
(*   NegativeLayerSize        set_layer_size accepts any size; afterwards    *)
(*                            rotate_layer / make_layer_transparent panic    *)
(*                            (Layer::new with a negative size)              *)
(*   SizeKeepsStorage         set_layer_size never touches the stored cells: *)
(*                            shrink + grow brings the cells back            *)
(*   EditsIgnoreLocks         clear_layer, rotate_layer, set_layer_size,     *)
(*                            toggle, remove, merge (as upper layer) ignore  *)
(*                            is_locked; only make_layer_transparent honours *)
(*                            it (and still records a step)                  *)
(*   RotateTruncatesGlyph     the rotation table is looked up with           *)
(*                            `ch as u8`: U+01DC rotates like code 220       *)
(*   FloatingUndoAssumesPaste undoing add_floating_layer makes the layer a   *)
(*                            PastePreview named "Floating selection"        *)
(*                            whatever it was before                         *)
(*   UndoKeepsCurrent         no undo step restores current_layer (some      *)
(*                            clamp it, merge sets it)                       *)
(*   AtomicClearsRedo         anchor_layer (on a paste layer) and            *)
(*                            make_layer_transparent discard the redo        *)
(*                            history even when they fail                    *)
(***************************************************************************)
EXTENDS Integers, Sequences, FiniteSets
CONSTANT HB     \* half-block table of font page 0, as in Layers.tla: [w, h, bits]

LOCAL Ly == INSTANCE Layers

MinI(a, b) == IF a <= b THEN a ELSE b
MaxI(a, b) == IF a >= b THEN a ELSE b
MaxS(S) == CHOOSE m \in S : \A n \in S : n <= m
UMax == -1                                     \* usize::MAX (as written in operation arguments)
Past(k, n) == k = UMax \/ k >= n               \* `layer >= self.buffer.layers.len()`

\* ---------------------------------------------------------------------------------------------- cells
Inv == <<>>
T == -1
Vis(c) == c # Inv
HasT(c) == c[2] = T \/ c[3] = T
IsTransp(c) == c = Inv \/ ((c[1] = 0 \/ c[1] = 32) /\ c[3] = 0)          \* AttributedChar::is_transparent
MakeSolid(t, u) == Ly!MakeSolid(t, u)                                    \* Buffer::make_solid_color
\* glyph rotation: rm = function code -> code (the engine looks it up with `ch as u8`: RotateTruncatesGlyph)
RotC(rm, c) == IF c = Inv THEN c ELSE IF (c[1] % 256) \in DOMAIN rm THEN [c EXCEPT ![1] = rm[c[1] % 256]] ELSE c
NoMap == [k \in {} |-> 0]

\* ---------------------------------------------------------------------------------------------- storage
CellG(g, x, y) == IF x >= 0 /\ y >= 0 /\ y < Len(g) /\ x < Len(g[y + 1]) THEN g[y + 1][x + 1] ELSE Inv
TrimRow(row) == LET nz == {i \in 1..Len(row) : row[i] # Inv} IN IF nz = {} THEN <<>> ELSE SubSeq(row, 1, MaxS(nz))
Norm(g) ==
  LET rows == [j \in 1..Len(g) |-> TrimRow(g[j])]
      nz == {j \in 1..Len(g) : rows[j] # <<>>}
  IN IF nz = {} THEN <<>> ELSE SubSeq(rows, 1, MaxS(nz))
SW(g) == IF g = <<>> THEN 0 ELSE MaxS({Len(g[j]) : j \in 1..Len(g)})
SH(g) == Len(g)
MkGrid(w, h, F(_, _)) == Norm([j \in 1..h |-> [i \in 1..w |-> F(i - 1, j - 1)]])

\* ---------------------------------------------------------------------------------------------- layers
At(L, x, y) == IF x < 0 \/ y < 0 \/ x >= L.w \/ y >= L.h THEN Inv ELSE CellG(L.g, x, y)              \* Layer::get_char
Off(L) == IF L.pv # <<>> THEN L.pv ELSE <<L.ox, L.oy>>                                                \* Layer::get_offset
SetOffset(L, x, y) == IF L.pl = 1 THEN L ELSE [L EXCEPT !.ox = x, !.oy = y, !.pv = <<>>]              \* Layer::set_offset
Writable(L) == L.lock = 0 /\ L.vis = 1                    \* Layer::set_char writes at all
AlphaLocked(L) == L.alpha = 1 /\ L.al = 1                 \* ... and not over an invisible cell
StoredInside(L) == SW(L.g) <= MaxI(L.w, 0) /\ SH(L.g) <= MaxI(L.h, 0)         \* nothing is stored beyond the size
\* every cell inside the size becomes F(x, y); what is stored beyond the size stays
Rewrite(L, F(_, _)) ==
  MkGrid(MaxI(SW(L.g), L.w), MaxI(SH(L.g), L.h), LAMBDA x, y : IF x < L.w /\ y < L.h THEN F(x, y) ELSE CellG(L.g, x, y))
TitleNew == [b |-> "new", n |-> 0]
TitlePasted == [b |-> "pasted", n |-> 0]
CopyOf(t) == [t EXCEPT !.n = @ + 1]
NewLayer(w, h) ==
  [w |-> w, h |-> h, ox |-> 0, oy |-> 0, pv |-> <<>>, vis |-> 1, lock |-> 0, pl |-> 0, alpha |-> 1, al |-> 0, mode |-> 0,
   role |-> "normal", title |-> TitleNew, col |-> <<>>, g |-> <<>>]
PropsOf(L) == [title |-> L.title, col |-> L.col, vis |-> L.vis, lock |-> L.lock, pl |-> L.pl, al |-> L.al, alpha |-> L.alpha,
               mode |-> L.mode, ox |-> L.ox, oy |-> L.oy]
SetProps(L, p) == [L EXCEPT !.title = p.title, !.col = p.col, !.vis = p.vis, !.lock = p.lock, !.pl = p.pl, !.al = p.al,
                            !.alpha = p.alpha, !.mode = p.mode, !.ox = p.ox, !.oy = p.oy]                     \* PropertiesCarryOffset
\* Layer::from_layer over the layer's own rectangle: a plain w x h copy of what get_char shows
Snap(L) == [w |-> L.w, h |-> L.h, g |-> MkGrid(L.w, L.h, LAMBDA x, y : CellG(L.g, x, y))]
\* Layer::restore: the snapshot is put back cell by cell, flags are not consulted, cells outside the layer's size are dropped
Restore(L, px, py, sn) ==
  [L EXCEPT !.g = Rewrite(L, LAMBDA x, y : IF x - px >= 0 /\ x - px < sn.w /\ y - py >= 0 /\ y - py < sn.h
                                           THEN CellG(sn.g, x - px, y - py) ELSE CellG(L.g, x, y))]
\* make_layer_transparent: blanks on background 0 become invisible, through Layer::set_char
TransparentL(L) ==
  IF ~Writable(L) THEN L
  ELSE [L EXCEPT !.g = Rewrite(L, LAMBDA x, y : IF IsTransp(CellG(L.g, x, y)) THEN Inv ELSE CellG(L.g, x, y))]
\* rotate_layer: the new rows (size h x w) - the left column, bottom to top, becomes the top row
RotatedG(L, rm) == MkGrid(L.h, L.w, LAMBDA x, y : RotC(rm, At(L, y, L.h - 1 - x)))
\* merge_layer_down: B = lower layer, C = upper layer; <<>> when the size of the union is negative (nothing happens)
MergedL(B, C) ==
  LET bo == Off(B)  co == Off(C)
      sx == MinI(bo[1], co[1])  sy == MinI(bo[2], co[2])
      W == MaxI(bo[1] + B.w, co[1] + C.w) - sx
      H == MaxI(bo[2] + B.h, co[2] + C.h) - sy
      M0 == SetOffset(B, sx, sy)                                   \* (!) refused when B is position-locked
      mo == Off(M0)
      refuse == ~Writable(B) \/ AlphaLocked(B)                     \* (!) MergeThroughBaseFlags: the clone was cleared first
      Cell(x, y) ==
        LET b == At(B, x + mo[1] - bo[1], y + mo[2] - bo[2])
            c == At(C, x + mo[1] - co[1], y + mo[2] - co[2])
        IN IF Vis(c) THEN (IF Vis(b) /\ HasT(c) THEN MakeSolid(c, b) ELSE c) ELSE b
  IN IF W < 0 \/ H < 0 THEN <<>>
     ELSE <<[M0 EXCEPT !.w = W, !.h = H, !.g = IF refuse THEN <<>> ELSE MkGrid(W, H, Cell)]>>

\* ---------------------------------------------------------------------------------------------- documents
NL(d) == Len(d.layers)
NoLayer(d) == d.layers = <<>>
LastIx(d) == MaxI(NL(d) - 1, 0)                                   \* len.saturating_sub(1)
CurIx(d) == MinI(d.cur, LastIx(d))                                \* get_current_layer (when there is a layer)
CurL(d) == d.layers[CurIx(d) + 1]
Lay(d, k) == d.layers[k + 1]
Clamp(d) == [d EXCEPT !.cur = MinI(@, LastIx(d))]                 \* clamp_current_layer
SetCur(d, k) == [d EXCEPT !.cur = MinI(k, LastIx(d))]             \* set_current_layer
ShownCur(d) == IF NoLayer(d) THEN 0 ELSE CurIx(d)                 \* what the API shows of the field
InsertAt(S, k, L) == SubSeq(S, 1, k) \o <<L>> \o SubSeq(S, k + 1, Len(S))         \* Vec::insert(k): k <= len
RemoveAt(S, k) == SubSeq(S, 1, k) \o SubSeq(S, k + 2, Len(S))                      \* Vec::remove(k): k < len
SwapAt(S, a, b) == [S EXCEPT ![a + 1] = S[b + 1], ![b + 1] = S[a + 1]]
\* what Buffer::get_char shows at p = <<x, y>> (Layers.tla: topmost visible covering cell, transparent colours resolved)
ToLy(L) == [o |-> Off(L), s |-> <<L.w, L.h>>, m |-> L.mode, a |-> L.alpha, v |-> L.vis, rows |-> L.g]
Shown(d, p) == Ly!Shown([i \in 1..NL(d) |-> ToLy(d.layers[i])], p)

\* ---------------------------------------------------------------------------------------------- undo records
\* [k |-> kind, ...]; Undo / Redo yield [r, d, rec]: result, document, the record as it is afterwards.  A record works by
\* index on whatever the document is; an index out of range is an error or a panic exactly where the code has one.
RR(r, d, rec) == [r |-> r, d |-> d, rec |-> rec]
RecAdd(i, L) == [k |-> "add", i |-> i, lay |-> <<L>>]
RecRemove(i) == [k |-> "remove", i |-> i, lay |-> <<>>]
RecRaise(i) == [k |-> "raise", i |-> i]
RecLower(i) == [k |-> "lower", i |-> i]
RecMerge(i, M) == [k |-> "merge", i |-> i, merged |-> <<M>>, orig |-> <<>>]
RecToggle(i) == [k |-> "toggle", i |-> i]
RecMove(i, from, to) == [k |-> "move", i |-> i, from |-> from, to |-> to]
RecSize(i, to) == [k |-> "size", i |-> i, from |-> to, to |-> to]
RecFloat(i) == [k |-> "float", i |-> i]
RecRotate(i, old, new) == [k |-> "rotate", i |-> i, old |-> old, new |-> new]
RecClear(i) == [k |-> "clear", i |-> i, g |-> <<>>]
RecProps(i, old, new) == [k |-> "props", i |-> i, old |-> old, new |-> new]
RecChange(i, px, py, old, new) == [k |-> "change", i |-> i, px |-> px, py |-> py, old |-> old, new |-> new]
RecAtomic(ops) == [k |-> "atomic", ops |-> ops]

WithLay(d, i, L) == [d EXCEPT !.layers[i + 1] = L]
SwapSize(L) == [L EXCEPT !.w = L.h, !.h = L.w]

RECURSIVE UndoRec(_, _), RedoRec(_, _), UndoSeq(_, _, _), RedoSeq(_, _, _)
RedoRec(d, rec) ==
  LET i == rec.i  n == NL(d) IN
  CASE rec.k = "add" ->
         IF rec.lay = <<>> THEN RR("ok", d, rec)
         ELSE IF i > n THEN RR("panic", d, rec)
         ELSE RR("ok", [d EXCEPT !.layers = InsertAt(@, i, rec.lay[1])], [rec EXCEPT !.lay = <<>>])
    [] rec.k = "remove" ->
         IF i < n THEN RR("ok", Clamp([d EXCEPT !.layers = RemoveAt(@, i)]), [rec EXCEPT !.lay = <<Lay(d, i)>>])
         ELSE RR("err", d, rec)
    [] rec.k = "raise" -> IF i + 1 >= n THEN RR("panic", d, rec) ELSE RR("ok", [d EXCEPT !.layers = SwapAt(@, i, i + 1)], rec)
    [] rec.k = "lower" -> IF i = 0 \/ i >= n THEN RR("panic", d, rec) ELSE RR("ok", [d EXCEPT !.layers = SwapAt(@, i, i - 1)], rec)
    [] rec.k = "merge" ->
         IF rec.merged = <<>> THEN RR("err", d, rec)
         ELSE IF i = 0 \/ i >= n THEN RR("panic", d, rec)
         ELSE RR("ok", SetCur([d EXCEPT !.layers = SubSeq(@, 1, i - 1) \o rec.merged \o SubSeq(@, i + 2, n)], i - 1),
                 [rec EXCEPT !.merged = <<>>, !.orig = <<<<Lay(d, i - 1), Lay(d, i)>>>>])
    [] rec.k = "toggle" -> IF i < n THEN RR("ok", WithLay(d, i, [Lay(d, i) EXCEPT !.vis = 1 - @]), rec) ELSE RR("err", d, rec)
    [] rec.k = "move" -> IF i < n THEN RR("ok", WithLay(d, i, SetOffset(Lay(d, i), rec.to[1], rec.to[2])), rec) ELSE RR("err", d, rec)
    [] rec.k = "size" ->
         IF i < n THEN RR("ok", WithLay(d, i, [Lay(d, i) EXCEPT !.w = rec.to[1], !.h = rec.to[2]]), [rec EXCEPT !.from = <<Lay(d, i).w, Lay(d, i).h>>])
         ELSE RR("err", d, rec)
    [] rec.k = "float" ->
         IF i < n THEN RR("ok", WithLay(d, i, [Lay(d, i) EXCEPT !.role = IF @ = "pimage" THEN "image" ELSE "normal", !.title = TitleNew]), rec)
         ELSE RR("ok", d, rec)
    [] rec.k = "rotate" -> IF i < n THEN RR("ok", WithLay(d, i, [SwapSize(Lay(d, i)) EXCEPT !.g = rec.new]), rec) ELSE RR("ok", d, rec)
    [] rec.k = "clear" -> IF i < n THEN RR("ok", WithLay(d, i, [Lay(d, i) EXCEPT !.g = rec.g]), [rec EXCEPT !.g = Lay(d, i).g]) ELSE RR("err", d, rec)
    [] rec.k = "props" -> IF i < n THEN RR("ok", WithLay(d, i, SetProps(Lay(d, i), rec.new)), rec) ELSE RR("err", d, rec)
    [] rec.k = "change" -> IF i < n THEN RR("ok", WithLay(d, i, Restore(Lay(d, i), rec.px, rec.py, rec.new)), rec) ELSE RR("err", d, rec)
    [] rec.k = "atomic" -> RedoSeq(d, rec, 1)
UndoRec(d, rec) ==
  LET i == rec.i  n == NL(d) IN
  CASE rec.k = "add" ->
         IF i >= n THEN RR("panic", d, rec)
         ELSE RR("ok", Clamp([d EXCEPT !.layers = RemoveAt(@, i)]), [rec EXCEPT !.lay = <<Lay(d, i)>>])
    [] rec.k = "remove" ->
         IF rec.lay = <<>> THEN RR("ok", d, rec)
         ELSE IF i > n THEN RR("panic", d, rec)
         ELSE RR("ok", [d EXCEPT !.layers = InsertAt(@, i, rec.lay[1])], [rec EXCEPT !.lay = <<>>])
    [] rec.k = "raise" -> IF i + 1 >= n THEN RR("panic", d, rec) ELSE RR("ok", [d EXCEPT !.layers = SwapAt(@, i, i + 1)], rec)
    [] rec.k = "lower" -> IF i = 0 \/ i >= n THEN RR("panic", d, rec) ELSE RR("ok", [d EXCEPT !.layers = SwapAt(@, i, i - 1)], rec)
    [] rec.k = "merge" ->
         IF rec.orig = <<>> THEN RR("err", d, rec)
         ELSE IF i = 0 \/ i - 1 >= n THEN RR("panic", d, rec)
         ELSE RR("ok", Clamp(SetCur([d EXCEPT !.layers = SubSeq(@, 1, i - 1) \o rec.orig[1] \o SubSeq(@, i + 1, n)], i)),     \* UndoKeepsCurrent
                 [rec EXCEPT !.merged = <<Lay(d, i - 1)>>, !.orig = <<>>])
    [] rec.k = "toggle" -> IF i < n THEN RR("ok", WithLay(d, i, [Lay(d, i) EXCEPT !.vis = 1 - @]), rec) ELSE RR("err", d, rec)
    [] rec.k = "move" -> IF i < n THEN RR("ok", WithLay(d, i, SetOffset(Lay(d, i), rec.from[1], rec.from[2])), rec) ELSE RR("err", d, rec)
    [] rec.k = "size" -> IF i < n THEN RR("ok", WithLay(d, i, [Lay(d, i) EXCEPT !.w = rec.from[1], !.h = rec.from[2]]), rec) ELSE RR("err", d, rec)
    [] rec.k = "float" ->                                                                                                        \* FloatingUndoAssumesPaste
         IF i < n THEN RR("ok", WithLay(d, i, [Lay(d, i) EXCEPT !.role = IF @ = "image" THEN "pimage" ELSE "preview", !.title = TitlePasted]), rec)
         ELSE RR("ok", d, rec)
    [] rec.k = "rotate" -> IF i < n THEN RR("ok", WithLay(d, i, [SwapSize(Lay(d, i)) EXCEPT !.g = rec.old]), rec) ELSE RR("ok", d, rec)
    [] rec.k = "clear" -> IF i < n THEN RR("ok", WithLay(d, i, [Lay(d, i) EXCEPT !.g = rec.g]), [rec EXCEPT !.g = Lay(d, i).g]) ELSE RR("err", d, rec)
    [] rec.k = "props" -> IF i < n THEN RR("ok", WithLay(d, i, SetProps(Lay(d, i), rec.old)), rec) ELSE RR("err", d, rec)
    [] rec.k = "change" -> IF i < n THEN RR("ok", WithLay(d, i, Restore(Lay(d, i), rec.px, rec.py, rec.old)), rec) ELSE RR("err", d, rec)
    [] rec.k = "atomic" -> UndoSeq(d, rec, Len(rec.ops))
\* AtomicUndo: the steps of the group in order (redo) / in reverse (undo); the first failure ends the walk
RedoSeq(d, rec, j) ==
  IF j > Len(rec.ops) THEN RR("ok", d, rec)
  ELSE LET one == RedoRec(d, rec.ops[j]) IN
       IF one.r # "ok" THEN RR(one.r, one.d, [rec EXCEPT !.ops[j] = one.rec])
       ELSE RedoSeq(one.d, [rec EXCEPT !.ops[j] = one.rec], j + 1)
UndoSeq(d, rec, j) ==
  IF j < 1 THEN RR("ok", d, rec)
  ELSE LET one == UndoRec(d, rec.ops[j]) IN
       IF one.r # "ok" THEN RR(one.r, one.d, [rec EXCEPT !.ops[j] = one.rec])
       ELSE UndoSeq(one.d, [rec EXCEPT !.ops[j] = one.rec], j - 1)

\* ---------------------------------------------------------------------------------------------- the public calls
Out(r, d, u, clr) == [r |-> r, d |-> d, push |-> Len(u), u |-> u, clr |-> clr]
Err(d) == Out("err", d, <<>>, FALSE)
Panic(d) == Out("panic", d, <<>>, FALSE)
Nothing(d) == Out("ok", d, <<>>, FALSE)
\* push_undo_action: the step is replayed once, then recorded (and the redo history discarded); a failing replay records nothing
Do(d, rec) ==
  LET one == RedoRec(d, rec) IN
  IF one.r = "ok" THEN Out("ok", one.d, <<one.rec>>, TRUE) ELSE Out(one.r, one.d, <<>>, FALSE)
ThenCur(res, k) == IF res.r = "ok" THEN [res EXCEPT !.d.cur = k] ELSE res               \* `self.current_layer = k` (not clamped)

AddNewLayer(d, k) ==
  IF k = UMax THEN Panic(d)                                                                \* IndexPlusOneOverflow
  ELSE LET idx == MinI(k + 1, NL(d)) IN ThenCur(Do(d, RecAdd(idx, NewLayer(d.bw, d.bh))), idx)
RemoveLayer(d, k) == IF Past(k, NL(d)) THEN Err(d) ELSE Do(d, RecRemove(k))                \* RemoveKeepsIndex
RaiseLayer(d, k) ==
  IF k = UMax THEN Panic(d)                                                                \* IndexPlusOneOverflow
  ELSE IF k + 1 >= NL(d) THEN Err(d) ELSE ThenCur(Do(d, RecRaise(k)), k + 1)
LowerLayer(d, k) ==
  IF k = 0 THEN Nothing(d)                                                                 \* LowerBottomIsOk
  ELSE IF Past(k, NL(d)) THEN Err(d) ELSE ThenCur(Do(d, RecLower(k)), k - 1)
DuplicateLayer(d, k) ==
  IF Past(k, NL(d)) THEN Err(d)
  ELSE ThenCur(Do(d, RecAdd(k + 1, [Lay(d, k) EXCEPT !.title = CopyOf(@)])), k + 1)
ClearLayer(d, k) == IF Past(k, NL(d)) THEN Err(d) ELSE ThenCur(Do(d, RecClear(k)), k + 1)  \* ClearLayerMovesCurrent, EditsIgnoreLocks
MergeLayerDown(d, k) ==
  IF k = 0 THEN Err(d)
  ELSE IF Past(k, NL(d)) THEN Err(d)
  ELSE IF CurL(d).role = "pimage" THEN Nothing(d)                                          \* MergeChecksCurrentRole
  ELSE LET M == MergedL(Lay(d, k - 1), Lay(d, k)) IN
       IF M = <<>> THEN Nothing(d)
       ELSE LET res == Do(d, RecMerge(k, M[1])) IN [res EXCEPT !.d = Clamp(@)]
AnchorLayer(d) ==
  IF NoLayer(d) THEN Err(d)
  ELSE IF CurL(d).role # "preview" THEN Nothing(d)
  ELSE LET m == MergeLayerDown(d, CurIx(d)) IN                                             \* inside an atomic group: AtomicClearsRedo
       Out(m.r, m.d, IF m.u = <<>> THEN <<>> ELSE <<RecAtomic(m.u)>>, TRUE)
AddFloatingLayer(d) == IF NoLayer(d) THEN Err(d) ELSE Do(d, RecFloat(CurIx(d)))
ToggleLayerVisibility(d, k) == IF Past(k, NL(d)) THEN Err(d) ELSE Do(d, RecToggle(k))
MoveLayer(d, x, y) ==
  IF NoLayer(d) THEN Nothing(d)
  ELSE LET d1 == WithLay(d, CurIx(d), [CurL(d) EXCEPT !.pv = <<>>])                        \* MoveErrClearsPreview
       IN Do(d1, RecMove(d.cur, <<CurL(d).ox, CurL(d).oy>>, <<x, y>>))                     \* RawCurrentIndex, MoveLockedStillPushes
SetLayerSize(d, k, w, h) == IF Past(k, NL(d)) THEN Err(d) ELSE Do(d, RecSize(k, <<w, h>>)) \* NegativeLayerSize, SizeKeepsStorage
RotateLayer(d, rm) ==
  IF d.cur >= NL(d) THEN Err(d)                                                            \* RawCurrentIndex
  ELSE LET L == Lay(d, d.cur) IN
       IF L.w < 0 \/ L.h < 0 THEN Panic(d)                                                 \* NegativeLayerSize (Layer::new)
       ELSE Do(d, RecRotate(d.cur, L.g, RotatedG(L, rm)))                                  \* EditsIgnoreLocks
MakeLayerTransparent(d) ==
  IF NoLayer(d) THEN Out("err", d, <<>>, TRUE)                                             \* AtomicClearsRedo
  ELSE LET L == CurL(d) IN
       IF L.w < 0 \/ L.h < 0 THEN Out("panic", d, <<>>, TRUE)                              \* NegativeLayerSize (Layer::from_layer)
       ELSE LET L2 == TransparentL(L) IN
            Out("ok", WithLay(d, CurIx(d), L2), <<RecAtomic(<<RecChange(CurIx(d), 0, 0, Snap(L), Snap(L2))>>)>>, TRUE)   \* (clamped since fix 464c2b3; was RawCurrentIndex)
\* EditState::set_current_layer (src/editor/mod.rs): clamped to the stack, no undo step
SetCurrentLayer(d, k) == Nothing(IF k = UMax THEN SetCur(d, LastIx(d)) ELSE SetCur(d, k))
UpdateLayerProperties(d, k, p) ==
  IF Past(k, NL(d)) THEN Panic(d)                                                          \* PropertiesNoRangeCheck
  ELSE Do(d, RecProps(k, PropsOf(Lay(d, k)), p))

\* ---------------------------------------------------------------------------------------------- dispatcher
\* o = [op, a (integer arguments), p (the Properties of update_layer_properties, else <<>>)]
IndexOps == {"add_new_layer", "remove_layer", "raise_layer", "lower_layer", "duplicate_layer", "clear_layer", "merge_layer_down",
             "toggle_layer_visibility"}
CurrentOps == {"anchor_layer", "add_floating_layer", "rotate_layer", "make_layer_transparent"}
AllOps == IndexOps \cup CurrentOps \cup {"move_layer", "set_layer_size", "update_layer_properties", "set_current_layer"}
Apply(d, o, rm) ==
  CASE o.op = "add_new_layer" -> AddNewLayer(d, o.a[1])
    [] o.op = "remove_layer" -> RemoveLayer(d, o.a[1])
    [] o.op = "raise_layer" -> RaiseLayer(d, o.a[1])
    [] o.op = "lower_layer" -> LowerLayer(d, o.a[1])
    [] o.op = "duplicate_layer" -> DuplicateLayer(d, o.a[1])
    [] o.op = "clear_layer" -> ClearLayer(d, o.a[1])
    [] o.op = "anchor_layer" -> AnchorLayer(d)
    [] o.op = "add_floating_layer" -> AddFloatingLayer(d)
    [] o.op = "merge_layer_down" -> MergeLayerDown(d, o.a[1])
    [] o.op = "toggle_layer_visibility" -> ToggleLayerVisibility(d, o.a[1])
    [] o.op = "move_layer" -> MoveLayer(d, o.a[1], o.a[2])
    [] o.op = "set_layer_size" -> SetLayerSize(d, o.a[1], o.a[2], o.a[3])
    [] o.op = "rotate_layer" -> RotateLayer(d, rm)
    [] o.op = "make_layer_transparent" -> MakeLayerTransparent(d)
    [] o.op = "update_layer_properties" -> UpdateLayerProperties(d, o.a[1], o.p)
    [] o.op = "set_current_layer" -> SetCurrentLayer(d, o.a[1])

\* the editor state [d, us, rs] under one call, EditState::undo and EditState::redo: [r, s, push]
\* (a step that fails while it is undone / replayed still changes stacks: it is moved, Err is returned; a panicking step is lost)
State(d) == [d |-> d, us |-> <<>>, rs |-> <<>>]
CallRes(r, s, push) == [r |-> r, s |-> s, push |-> push]
Front(q) == SubSeq(q, 1, Len(q) - 1)
Call(s, o, rm) ==
  CASE o.op = "undo" ->
         IF s.us = <<>> THEN CallRes("ok", s, 0)
         ELSE LET one == UndoRec(s.d, s.us[Len(s.us)]) IN
              IF one.r = "panic" THEN CallRes("panic", [s EXCEPT !.us = Front(@)], 0)
              ELSE CallRes(one.r, [d |-> one.d, us |-> Front(s.us), rs |-> Append(s.rs, one.rec)], 0)
    [] o.op = "redo" ->
         IF s.rs = <<>> THEN CallRes("ok", s, 0)
         ELSE LET one == RedoRec(s.d, s.rs[Len(s.rs)]) IN
              IF one.r = "panic" THEN CallRes("panic", [s EXCEPT !.rs = Front(@)], 0)
              ELSE CallRes(one.r, [d |-> one.d, us |-> Append(s.us, one.rec), rs |-> Front(s.rs)], 0)
    [] OTHER ->
         LET res == Apply(s.d, o, rm) IN
         CallRes(res.r, [d |-> res.d, us |-> s.us \o res.u, rs |-> IF res.clr THEN <<>> ELSE s.rs], res.push)
=============================================================================
