SPECIFICATION Spec
CONSTANTS UNK = UNK
          Docs = {1, 2, 3}
          MaxEdits = 3
          MaxDepth = 2
          MaxBegins = 2
          MaxSteps = 6
          GenMode = FALSE
INVARIANT Inv
VIEW ViewMC
CHECK_DEADLOCK FALSE
